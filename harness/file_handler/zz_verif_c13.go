//go:build verifharness

package filehandler

// C13 — transient end-of-file or read timeouts on the input lose and
// duplicate nothing.
//
// The real Handle runs on a real bufio.Reader (interpreted from its source,
// so the reader's buffering is part of what is explored) wrapped around a
// scripted io.Reader: every call of the script chooses nondeterministically
// among a chunk of 1..3 symbolic bytes, (0, nil), (0, io.EOF), an i/o timeout
// error and another error.  The real framing goroutine (HandleMessages) runs
// concurrently under the engine's scheduler.  What reaches the message
// channel must be, byte for byte, exactly what the script supplied.

import (
	"bufio"
	"errors"
	"io"

	"github.com/goblimey/go-ntrip/jsonconfig"
	rtcm "github.com/goblimey/go-ntrip/rtcm/handler"
)

func init() {
	verifRegister("VerifC13_Interruptions", VerifC13_Interruptions)
}

const (
	c13Data = iota
	c13EOF
	c13Timeout
	c13Other
	c13Nothing
	c13SlowData // data after a pause longer than the tolerance
	c13DataEOF  // data and io.EOF in the same call (the io.Reader contract allows it)
	c13DataTimeout
)

const (
	c13ToleranceMs = 200
	c13PauseNs     = 300 * 1000000
	c13JitterNs    = 50 * 1000000
)

var c13ErrOther = errors.New("read /dev/ttyUSB0: input/output error")
var c13ErrTimeout = errors.New("read /dev/ttyUSB0: i/o timeout")
var c13ErrExhausted = errors.New("read /dev/ttyUSB0: no such device")

type c13Reader struct {
	calls    int
	max      int
	supplied []byte
	fatalAt  int // call index of the first non-EOF, non-timeout error; -1
	lastKind int
	run      int // number of consecutive EOF/timeout results ending at the last call
	// silentTail: after the script the source stays silent for good: every
	// further call takes 100 ms and reports io.EOF or a freshly made timeout
	// error, alternately (a real file descriptor makes a new error value
	// for every timeout)
	silentTail bool
	tailCalls  int
}

func c13Name(prefix string, i int) string {
	return prefix + string(rune('a'+i))
}

func (r *c13Reader) Read(p []byte) (int, error) {
	i := r.calls
	r.calls++
	if i >= r.max && r.silentTail && r.tailCalls < 10 {
		r.tailCalls++
		r.run++
		verifAdvanceClock(100 * 1000000)
		if r.tailCalls%2 == 1 {
			return 0, io.EOF
		}
		return 0, errors.New("read /dev/ttyUSB0: i/o timeout")
	}
	if i >= r.max {
		// the script is over: the device disappears
		if r.fatalAt < 0 {
			r.fatalAt = i
		}
		return 0, c13ErrExhausted
	}
	kind := verifParam(c13Name("kind", i), 0, 7)
	r.lastKind = kind
	switch kind {
	case c13DataEOF, c13DataTimeout:
		// the data ends the previous interruption, the error starts a new one
		r.run = 1
	case c13EOF, c13Timeout:
		r.run++
	case c13Nothing:
		// no data and no error: the source is still silent
	default:
		r.run = 0
	}
	if kind == c13SlowData {
		verifAdvanceClock(c13PauseNs)
		kind = c13Data
	}
	switch kind {
	case c13Data, c13DataEOF, c13DataTimeout:
		n := []int{1, 3}[verifParam(c13Name("n", i), 0, 1)]
		data := verifBytes(c13Name("d", i), n)
		copy(p, data)
		r.supplied = append(r.supplied, data...)
		if kind == c13DataEOF {
			return n, io.EOF
		}
		if kind == c13DataTimeout {
			return n, c13ErrTimeout
		}
		return n, nil
	case c13EOF:
		return 0, io.EOF
	case c13Timeout:
		return 0, c13ErrTimeout
	case c13Other:
		if r.fatalAt < 0 {
			r.fatalAt = i
		}
		return 0, c13ErrOther
	}
	return 0, nil
}

func VerifC13_Interruptions() {
	verifOwnPanics()
	// three reader calls in both tiers (four calls of eight kinds exceed the
	// path budget); the thorough tier adds the round-robin schedule and a zero
	// wait time
	calls := 3
	// quick: the lazy schedule and a wait time of 1 ms; thorough: round-robin
	// and a zero wait time as well
	maxSched, minWait := 0, 1
	if verifTier() > 0 {
		maxSched, minWait = 1, 0
	}
	verifSchedule(verifParam("schedule", 0, maxSched), 0) // lazy, round-robin
	// the clock advances by sleeps and declared pauses plus at most 50 ms
	// per reading; tolerance 200 ms, declared pauses 300 ms
	verifClockModel(c13JitterNs)
	tol := []uint{0, c13ToleranceMs}[verifParam("tolerance", 0, 1)]
	wait := []uint{0, 1}[verifParam("wait", minWait, 1)]
	cfg := &jsonconfig.Config{TimeoutOnEOFMilliSeconds: tol, WaitTimeOnEOFMilliseconds: wait}
	rd := &c13Reader{max: calls, fatalAt: -1}
	if verifParam("silent-tail", 0, 1) == 1 {
		// one scripted call of any kind, then silence for good: the handler
		// must give up (ten silent calls are a second, five tolerances)
		rd.max, rd.silentTail = 1, true
	}
	msgChan := make(chan rtcm.Message, 32)
	h := New(msgChan, cfg)
	verifWitness("reached")
	err := h.Handle(verifTimeOf(1676376000*1000000000), bufio.NewReader(rd))
	verifWitness("returned")

	// Handle has returned: the byte channel is closed, the framing goroutine
	// flushes what it holds and closes the message channel.  Draining blocks
	// for ever (a deadlock / native hang) if the channel is never closed.
	var got []byte
	empty := false
	for m := range msgChan {
		if len(m.RawData) == 0 {
			empty = true
		}
		got = append(got, m.RawData...)
	}
	// let the framing goroutine run to its end: a panic there (a second close
	// of the message channel, say) is a crash of the program
	verifQuiesce()
	verifAssert("framing-goroutine-finished", verifLiveGoroutines() == 0)
	verifAssert("stopped-with-the-read-error", err != nil)
	if rd.silentTail {
		verifAssert("gives-up-when-the-source-stays-silent", rd.tailCalls < 10)
	}
	verifAssert("no-empty-message", !empty)
	verifAssert("every-byte-exactly-once-in-order", verifBytesEq(got, rd.supplied))

	// Stop conditions that do not depend on the clock.
	if rd.fatalAt >= 0 {
		// another read error ends the run at once: no read after it
		verifAssert("stops-at-other-error", rd.calls == rd.fatalAt+1)
	}
	if tol != 0 && rd.fatalAt < 0 {
		// with a tolerance, one EOF or timeout alone never ends the run: the
		// handler gives up only when an interruption is followed by another
		verifAssert("tolerated-single-interruption", rd.run >= 2)
	}
	if tol == 0 {
		// zero tolerance: the run ends at the first EOF/timeout/other error
		verifAssert("zero-tolerance-stops-at-first-error", rd.lastKind != c13Data && rd.lastKind != c13SlowData && rd.lastKind != c13Nothing || rd.calls > rd.max)
	}
}
