//go:build verifharness

package main

// C10 — rtcmfilter emits exactly the valid RTCM frames of its input, in
// order; the record file receives the same bytes and the display log one
// entry per delivered message.

import (
	"errors"
	"log/slog"

	"github.com/goblimey/go-crc24q/crc24q"

	"github.com/goblimey/go-ntrip/jsonconfig"
	rtcm "github.com/goblimey/go-ntrip/rtcm/handler"
	"github.com/goblimey/go-ntrip/rtcm/utils"
)

func init() {
	verifRegister("VerifC10_WriterLoop", VerifC10_WriterLoop)
	verifRegister("VerifC10_Composed", VerifC10_Composed)
}

// c10FaultyWriter records what is written; one chosen call fails with an
// error or a short write.
type c10FaultyWriter struct {
	data   []byte
	calls  int
	failAt int // call index that fails, -1 never
	short  bool
}

func (w *c10FaultyWriter) Write(p []byte) (int, error) {
	i := w.calls
	w.calls++
	if i == w.failAt {
		if w.short && len(p) > 0 {
			w.data = append(w.data, p[:len(p)-1]...)
			return len(p) - 1, nil
		}
		return 0, errors.New("no space left on device")
	}
	w.data = append(w.data, p...)
	return len(p), nil
}

// The writer loop alone: up to three messages of symbolic type (typed or the
// non-RTCM sentinel) and symbolic raw bytes of length 0..3; the writer may
// fail at any call.  Exactly the raw bytes of the typed messages are
// written, in order, up to the failing call.
func VerifC10_WriterLoop() {
	verifOwnPanics()
	k := verifParam("messages", 0, 3)
	ch := make(MessageChannel, k+1)
	var want []byte
	w := &c10FaultyWriter{failAt: verifParam("fail-at", -1, 2), short: verifParam("short", 0, 1) == 1}
	typed := 0
	stopped := false
	for i := 0; i < k; i++ {
		n := verifParam(string(rune('n'+i)), 0, 3)
		raw := verifBytes(string(rune('a'+i)), n)
		isRTCM := verifParam(string(rune('t'+i)), 0, 1) == 1
		t := utils.NonRTCMMessage
		if isRTCM {
			t = int(verifU16(string(rune('A'+i)))) & 0xfff
			if !stopped {
				if typed == w.failAt {
					stopped = true
					if w.short && n > 0 {
						want = append(want, raw[:n-1]...)
					}
				} else {
					want = append(want, raw...)
				}
			}
			typed++
		}
		// a typed message may carry an error text (an MSM frame whose
		// timestamp is out of range is still a valid frame)
		em := ""
		if isRTCM && verifParam(string(rune('e'+i)), 0, 1) == 1 {
			em = "timestamp out of range"
		}
		ch <- rtcm.Message{MessageType: t, RawData: raw, ErrorMessage: em}
	}
	close(ch)
	verifWitness("reached")
	writeRTCMMessages(ch, w)
	verifWitness("returned")
	verifAssert("writes-exactly-the-typed-frames-in-order", verifBytesEq(w.data, want))
}

func c10Sequential(in []byte) []rtcm.Message {
	ch := make(chan byte, len(in)+1)
	for _, b := range in {
		ch <- b
	}
	close(ch)
	out := make(chan rtcm.Message, len(in)+2)
	rtcm.New(verifTimeOf(1676376000*1000000000), slog.LevelDebug).HandleMessages(ch, out)
	var ms []rtcm.Message
	for m := range out {
		ms = append(ms, m)
	}
	return ms
}

// c10Input: frames, junk and a corrupted frame with symbolic contents.
func c10Input(shape int) []byte {
	var in []byte
	switch shape {
	case 5:
		// a junk run longer than the longest possible frame (1029 bytes),
		// then two frames
		j := verifBytes("junk", 1030)
		for i := range j {
			verifAssume(j[i] != 0xd3)
		}
		in = append(in, j...)
		in = append(in, c11Frame("a", 2)...)
		in = append(in, c11Frame("b", 2)...)
	case 4:
		// a CRC-valid MSM7 frame whose timestamp is out of range (all ones)
		// between two other frames: reported with an error, still a valid frame
		in = append(in, c11Frame("a", 2)...)
		p := verifBytes("m", 10)
		p[0], p[1], p[2] = 0x43, 0x50, 0x00 // type 1077, station 0
		p[3], p[4], p[5] = 0xff, 0xff, 0xff // timestamp bits all ones ...
		p[6] = 0xfc | p[6]&0x03             // ... 30 of them
		f := append([]byte{0xd3, 0x00, 10}, p...)
		crc := crc24q.Hash(f)
		in = append(in, append(f, byte(crc>>16), byte(crc>>8), byte(crc))...)
		in = append(in, c11Frame("c", 2)...)
	case 0:
		in = append(in, c11Frame("a", 3)...)
	case 1:
		in = append(in, 'j', 'k')
		in = append(in, c11Frame("a", 3)...)
		in = append(in, c11Frame("b", 2)...)
	case 2:
		// a frame whose last CRC byte is damaged, between two good ones
		in = append(in, c11Frame("a", 2)...)
		bad := c11Frame("b", 2)
		d := verifU8("damage")
		verifAssume(d != 0)
		bad[len(bad)-1] ^= d
		in = append(in, bad...)
		in = append(in, c11Frame("c", 2)...)
	default:
		in = append(in, c11Frame("a", 2)...)
		in = append(in, 0xd3, 0x00, 0x05, 0x4c) // truncated at end of input
	}
	return in
}

// The composed application: real file handler, framing, fan-out and writer
// goroutines under the engine's scheduler, display and record switches both
// ways.
func VerifC10_Composed() {
	verifOwnPanics()
	verifHexModel()
	shape := verifParam("shape", 0, 5)
	maxMode := 2
	if shape == 5 {
		// the long junk run goes byte by byte through an unbuffered channel:
		// one-preemption schedules would be thousands; lazy and round-robin only
		maxMode = 1
	}
	mode := verifParam("schedule", 0, maxMode)
	verifSchedule(mode, 1)
	display := verifParam("display", 0, 1) == 1
	record := verifParam("record", 0, 1) == 1
	dir := verifTempDir()
	defer verifRemoveDir(dir)
	cfg := &jsonconfig.Config{DisplayMessages: display, RecordMessages: record, MessageLogDirectory: dir}
	in := c10Input(shape)
	seq := c10Sequential(in)
	var wantFrames []byte
	wantDisplay := ""
	for i := range seq {
		if seq[i].MessageType != utils.NonRTCMMessage {
			wantFrames = append(wantFrames, seq[i].RawData...)
		}
		wantDisplay += seq[i].String() + "\n"
	}
	w := &c11Writer{}
	// the source: everything at once and then EOF, or in chunks of seven
	// bytes with the last chunk and EOF reported by the same call
	src := &c11Source{data: in}
	if shape != 5 && verifParam("source", 0, 1) == 1 {
		src.chunk, src.eofWithData = 7, true
	}
	verifWitness("reached")
	HandleMessages(verifTimeOf(1676376000*1000000000), src, w, cfg)
	verifWitness("returned")
	verifQuiesce()
	verifAssert("output-is-exactly-the-valid-frames", verifBytesEq(w.data, wantFrames))
	if record {
		verifAssert("record-file-holds-the-same-bytes", verifBytesEq(verifDailyLog(dir, "rtcmfilter."), wantFrames))
	}
	if display {
		verifAssert("display-log-one-entry-per-message", verifBytesEq(verifDailyLog(dir, "rtcm."), []byte(wantDisplay)))
	}
}
