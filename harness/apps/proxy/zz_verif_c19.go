//go:build verifharness

package main

// C19 (relay) — the proxy relays both directions byte-for-byte whatever the
// data is, and parsing the traffic never alters, withholds or stops the
// relayed stream.  The real handleMessages runs with both relay loops, the
// real RTCM parser goroutine and the real queue-feeding goroutine under the
// engine's scheduler, on scripted connections whose reads return chunks of
// symbolic bytes.

import (
	"errors"
	"io"
	"log/slog"
	"net"
	"sync"
	"time"

	"github.com/goblimey/go-crc24q/crc24q"
	circularQueue "github.com/goblimey/go-ntrip/apps/proxy/circular_queue"
	"github.com/goblimey/go-ntrip/apps/proxy/reportfeed"
	rtcm "github.com/goblimey/go-ntrip/rtcm/handler"
	"github.com/goblimey/go-tools/dailylogger"
)

func init() {
	verifRegister("VerifC19_Relay", VerifC19_Relay)
}

// c19Conn: a scripted connection.  Read hands out the chunks, then io.EOF;
// after Close it fails.  Write records.  Every call is a scheduling point.
type c19Conn struct {
	mu      sync.Mutex
	chunks  [][]byte
	next    int
	handed  []byte // everything Read has returned so far
	written []byte
	closed  bool
	partial bool // a chunk may be larger than the reader's buffer
	// a peer that does not read yet: Write blocks until gate is closed
	gate chan struct{}
	// notify is closed as soon as notifyAt bytes have been written
	notify   chan struct{}
	notifyAt int
	notified bool
}

var c19ErrClosed = errors.New("use of closed network connection")

func (c *c19Conn) Read(p []byte) (int, error) {
	verifSlow()
	c.mu.Lock()
	defer c.mu.Unlock()
	if c.closed {
		return 0, c19ErrClosed
	}
	if c.next >= len(c.chunks) {
		return 0, io.EOF
	}
	n := copy(p, c.chunks[c.next])
	if c.partial && n < len(c.chunks[c.next]) {
		// a chunk larger than the caller's buffer: the rest stays for the next read
		c.chunks[c.next] = c.chunks[c.next][n:]
	} else {
		c.next++
	}
	c.handed = append(c.handed, p[:n]...)
	return n, nil
}

func (c *c19Conn) Write(p []byte) (int, error) {
	verifSlow()
	if c.gate != nil {
		<-c.gate
	}
	c.mu.Lock()
	defer c.mu.Unlock()
	if c.closed {
		return 0, c19ErrClosed
	}
	c.written = append(c.written, p...)
	if c.notify != nil && !c.notified && len(c.written) >= c.notifyAt {
		c.notified = true
		close(c.notify)
	}
	return len(p), nil
}

func (c *c19Conn) Close() error {
	c.mu.Lock()
	defer c.mu.Unlock()
	c.closed = true
	return nil
}

func (c *c19Conn) LocalAddr() net.Addr                { return nil }
func (c *c19Conn) RemoteAddr() net.Addr               { return nil }
func (c *c19Conn) SetDeadline(t time.Time) error      { return nil }
func (c *c19Conn) SetReadDeadline(t time.Time) error  { return nil }
func (c *c19Conn) SetWriteDeadline(t time.Time) error { return nil }

func (c *c19Conn) snapshot() (handed, written []byte) {
	c.mu.Lock()
	defer c.mu.Unlock()
	return append([]byte(nil), c.handed...), append([]byte(nil), c.written...)
}

func c19Chunks(name string, k, size int) [][]byte {
	var cs [][]byte
	for i := 0; i < k; i++ {
		cs = append(cs, verifBytes(name+string(rune('a'+i)), size))
	}
	return cs
}

func c19ValidFrame(p []byte) []byte {
	f := []byte{0xd3, byte(len(p)>>8) & 3, byte(len(p))}
	f = append(f, p...)
	crc := crc24q.Hash(f)
	return append(f, byte(crc>>16), byte(crc>>8), byte(crc))
}

func VerifC19_Relay() {
	verifOwnPanics()
	verifFixedClock(1676376000 * 1000000000)
	mode := verifParam("schedule", 0, 2) // lazy, round-robin, <= 1 preemption
	verifSchedule(mode, 1)
	dir := verifTempDir()
	defer verifRemoveDir(dir)

	// what start() sets up, without the network and the HTTP status server
	rtcmLog = dailylogger.New(dir, "proxy.", ".log")
	byteChan = make(chan byte)
	messageChan = make(chan rtcm.Message)
	rtcmHandler = rtcm.New(verifTimeOf(1676376000*1000000000), slog.LevelInfo)
	go rtcmHandler.HandleMessages(byteChan, messageChan)
	recentMessages = circularQueue.NewCircularQueue(maxNumberOfMessagesStored)
	go keepCircularQueueUpdated(messageChan, recentMessages)
	reportFeed = reportfeed.New(rtcmLog, recentMessages)

	var client, server *c19Conn
	if mode == 0 && verifParam("full-buffers", 0, 1) == 1 {
		// both peers send more than the relay's 2048-byte buffer takes in
		// one read: 2049 and 4097 bytes offered at once (first and last byte
		// symbolic, the rest fixed text), so reads fill the buffer to the
		// last byte and leave a remainder (lazy schedule)
		big := func(name string, n int) []byte {
			b := make([]byte, n)
			for i := range b {
				b[i] = byte('A' + i%23)
			}
			e := verifBytes(name, 2)
			b[0], b[n-1] = e[0], e[1]
			return b
		}
		client = &c19Conn{chunks: [][]byte{big("cb", 2049)}, partial: true}
		server = &c19Conn{chunks: [][]byte{big("sb", 4097)}, partial: true}
	} else if mode == 0 && verifParam("frames", 0, 1) == 1 {
		// the client sends complete CRC-valid frames: one whose 12-bit type is
		// symbolic (every type 0..4095), a second frame, one more byte; the
		// parser and the queue must keep up with all of them (lazy schedule)
		p := verifBytes("f", 2)
		f1 := c19ValidFrame(p)
		f2 := c19ValidFrame([]byte{0x4c, 0xe0, 0x00})
		client = &c19Conn{chunks: [][]byte{f1, f2, verifBytes("t", 1)}}
		server = &c19Conn{chunks: c19Chunks("s", 1, 2)}
	} else {
		kc := verifParam("client-chunks", 0, 2)
		ks := verifParam("server-chunks", 0, 2)
		size := verifParam("chunk-size", 1, 2)
		client = &c19Conn{chunks: c19Chunks("c", kc, size)}
		server = &c19Conn{chunks: c19Chunks("s", ks, size)}
		if kc > 0 && ks > 0 && verifParam("client-reads-late", 0, 1) == 1 {
			// a client that sends everything before it starts to read: what
			// the proxy writes to it is not taken (the write blocks) until
			// the server has received all the client sent.  One direction
			// standing still must not hold up the other.
			server.notify, server.notifyAt = make(chan struct{}), kc*size
			client.gate = server.notify
		}
	}
	var c19All []byte
	for _, c := range client.chunks {
		c19All = append(c19All, c...)
	}
	verifWitness("reached")
	handleMessages(server, client, false, 1)
	verifWitness("returned")
	verifQuiesce()

	fromClient, toClient := client.snapshot()
	fromServer, toServer := server.snapshot()
	allClient := c19All
	verifAssert("client-stream-read-to-the-end", verifBytesEq(fromClient, allClient))
	verifAssert("server-received-exactly-the-client-bytes", verifBytesEq(toServer, fromClient))
	// The session ends when the client disconnects: what the relay had read
	// from the server by then but not yet passed on cannot be delivered any
	// more.  What did reach the client is the server's stream unaltered: a
	// prefix of it, in order, nothing duplicated.
	okPrefix := len(toClient) <= len(fromServer)
	if okPrefix {
		okPrefix = verifBytesEq(toClient, fromServer[:len(toClient)])
	}
	verifAssert("client-received-the-server-bytes-unaltered", okPrefix)

	// the report lists only messages that were relayed: the raw bytes of the
	// queued messages are a prefix of the client stream
	var listed []byte
	for _, m := range recentMessages.GetMessages() {
		listed = append(listed, m.RawData...)
	}
	ok := len(listed) <= len(fromClient)
	if ok {
		ok = verifBytesEq(listed, fromClient[:len(listed)])
	}
	verifAssert("listed-messages-were-relayed", ok)
}
