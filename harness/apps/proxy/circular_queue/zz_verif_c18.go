//go:build verifharness

package circularQueue

// C18 — the recent-message queue always holds the last N messages in
// arrival order.
//
// Messages are identified by a symbolic tag (their MessageType), so one
// explored history stands for every choice of messages.  Go randomises map
// iteration order; the engine explores both a forward and a reverse order at
// every `range` over the map (verifMapOrder).

import (
	rtcm "github.com/goblimey/go-ntrip/rtcm/handler"
)

func init() {
	verifRegister("VerifC18_Histories", VerifC18_Histories)
	verifRegister("VerifC18_InductiveStep", VerifC18_InductiveStep)
	verifRegister("VerifC18_LockDiscipline", VerifC18_LockDiscipline)
}

func c18Tag(i int) int { return verifInt(c18Name("tag", i)) }

func c18Name(prefix string, i int) string {
	return prefix + string(rune('a'+i/26)) + string(rune('a'+i%26))
}

// c18CheckSnapshot: the snapshot is exactly want, in order.
func c18CheckSnapshot(label string, q *CircularQueue, want []int) {
	got := q.GetMessages()
	verifAssert(label+"-length", len(got) == len(want))
	if len(got) != len(want) {
		return
	}
	ok := true
	for i := range want {
		ok = verifAnd(ok, got[i].MessageType == want[i])
	}
	verifAssert(label+"-last-n-in-order", ok)
}

// Every history of up to N+3 additions on a queue of capacity N, with a
// snapshot after each addition.
func VerifC18_Histories() {
	verifOwnPanics()
	verifMapOrder()
	maxN := 4
	if verifTier() > 0 {
		maxN = 8
	}
	n := verifParam("capacity", 1, maxN)
	q := NewCircularQueue(n)
	verifWitness("reached")
	c18CheckSnapshot("empty", q, nil)
	var added []int
	for i := 0; i < n+3; i++ {
		t := c18Tag(i)
		q.Add(rtcm.Message{MessageType: t})
		added = append(added, t)
		verifAssert("never-more-than-capacity", len(q.Items) <= n)
		lo := 0
		if len(added) > n {
			lo = len(added) - n
		}
		c18CheckSnapshot("after-add", q, added[lo:])
	}
	verifWitness("returned")
}

// One addition from an ARBITRARY valid state: the keys are a contiguous
// range ending at a symbolic NextIndex (long runs far beyond the capacity
// are all of this form), holding cnt <= N messages.  The invariant is kept
// and the contents shift by one.
func VerifC18_InductiveStep() {
	verifOwnPanics()
	verifMapOrder()
	maxN := 4
	if verifTier() > 0 {
		maxN = 8
	}
	n := verifParam("capacity", 1, maxN)
	cnt := verifParam("held", 0, n)
	base := verifInt("base")
	verifAssume(base >= 0)
	verifAssume(base < 1<<62)
	q := NewCircularQueue(n)
	var held []int
	for i := 0; i < cnt; i++ {
		t := c18Tag(i)
		q.Items[base+i] = rtcm.Message{MessageType: t}
		held = append(held, t)
	}
	q.NextIndex = base + cnt
	verifWitness("reached")
	c18CheckSnapshot("pre-state", q, held)
	t := c18Tag(cnt)
	q.Add(rtcm.Message{MessageType: t})
	held = append(held, t)
	if len(held) > n {
		held = held[1:]
	}
	verifAssert("never-more-than-capacity", len(q.Items) <= n)
	verifAssert("next-index-advanced", q.NextIndex == base+cnt+1)
	// invariant: the keys are again the contiguous range ending at NextIndex
	okKeys := true
	for i := 0; i < len(held); i++ {
		_, present := q.Items[q.NextIndex-len(held)+i]
		okKeys = okKeys && present
	}
	verifAssert("keys-contiguous", okKeys)
	c18CheckSnapshot("post-state", q, held)
	verifWitness("returned")
}

// Lock discipline: what makes the sequential results carry over to
// concurrent callers.  From any state of the histories above, on every path
// of Add every access to Items and NextIndex happens with the write lock
// held, on every path of GetMessages with at least the read lock, and the
// lock is free again on return.  (Natively the same is exercised by a
// concurrent stress run under the Go race detector.)
func VerifC18_LockDiscipline() {
	verifOwnPanics()
	verifMapOrder()
	n := verifParam("capacity", 1, 3)
	cnt := verifParam("held", 0, n)
	q := NewCircularQueue(n)
	for i := 0; i < cnt; i++ {
		q.Add(rtcm.Message{MessageType: c18Tag(i)})
	}
	verifWitness("reached")
	verifGuardedBy(q.RWMutex, "queue-state", &q.Items, &q.NextIndex)
	verifGuardOn()
	if verifParam("op", 0, 1) == 0 {
		q.Add(rtcm.Message{MessageType: c18Tag(cnt)})
	} else {
		_ = q.GetMessages()
	}
	verifGuardOff()
	verifAssert("lock-released-on-return", verifRWMutexFree(q.RWMutex))
	verifRaceStress(
		func() {
			for i := 0; i < 300; i++ {
				q.Add(rtcm.Message{MessageType: i})
			}
		},
		func() {
			for i := 0; i < 300; i++ {
				_ = q.GetMessages()
			}
		},
		func() {
			for i := 0; i < 300; i++ {
				q.Add(rtcm.Message{MessageType: -i})
			}
		})
	verifWitness("returned")
}
