//go:build verifharness

package circularQueue

// C18 — the recent-message queue always holds the last N messages in
// arrival order.
//
// Messages are identified by a symbolic tag (their MessageType), so one
// explored history stands for every choice of messages.  Go randomises map
// iteration order; the engine explores both a forward and a reverse order at
// every `range` over the map (verifMapOrder).

import (
	"sync"

	rtcm "github.com/goblimey/go-ntrip/rtcm/handler"
)

func init() {
	verifRegister("VerifC18_Histories", VerifC18_Histories)
	verifRegister("VerifC18_InductiveStep", VerifC18_InductiveStep)
	verifRegister("VerifC18_LockDiscipline", VerifC18_LockDiscipline)
	verifRegister("VerifC18_Concurrent", VerifC18_Concurrent)
}

func c18Tag(i int) int { return verifInt(c18Name("tag", i)) }

func c18Name(prefix string, i int) string {
	return prefix + string(rune('a'+i/26)) + string(rune('a'+i%26))
}

// c18CheckSnapshot: the snapshot is exactly want, in order.
func c18CheckSnapshot(label string, q *CircularQueue, want []int) {
	got := q.GetMessages()
	verifAssert(label+"-length", len(got) == len(want))
	if len(got) != len(want) {
		return
	}
	ok := true
	for i := range want {
		ok = verifAnd(ok, got[i].MessageType == want[i])
	}
	verifAssert(label+"-last-n-in-order", ok)
}

// Every history of up to N+3 additions on a queue of capacity N, with a
// snapshot after each addition.
func VerifC18_Histories() {
	verifOwnPanics()
	verifMapOrder()
	maxN := 4
	if verifTier() > 0 {
		maxN = 8
	}
	n := verifParam("capacity", 1, maxN)
	q := NewCircularQueue(n)
	verifWitness("reached")
	c18CheckSnapshot("empty", q, nil)
	var added []int
	for i := 0; i < n+3; i++ {
		t := c18Tag(i)
		q.Add(rtcm.Message{MessageType: t})
		added = append(added, t)
		verifAssert("never-more-than-capacity", len(q.Items) <= n)
		lo := 0
		if len(added) > n {
			lo = len(added) - n
		}
		c18CheckSnapshot("after-add", q, added[lo:])
	}
	verifWitness("returned")
}

// One addition from an ARBITRARY valid state: the keys are a contiguous
// range ending at a symbolic NextIndex (long runs far beyond the capacity
// are all of this form), holding cnt <= N messages.  The invariant is kept
// and the contents shift by one.
func VerifC18_InductiveStep() {
	verifOwnPanics()
	verifMapOrder()
	// capacities: small ones, and larger ones around powers of two
	caps := []int{1, 2, 3, 4, 7, 8, 9, 16}
	if verifTier() > 0 {
		caps = []int{1, 2, 3, 4, 5, 6, 7, 8, 9, 15, 16, 17, 24, 32}
	}
	n := caps[verifParam("capacity", 0, len(caps)-1)]
	// held: empty, one, nearly full, full (every fill level for small queues)
	var cnt int
	if n <= 4 {
		cnt = verifParam("held", 0, n)
	} else {
		cnt = []int{0, 1, n - 1, n}[verifParam("held", 0, 3)]
	}
	base := verifInt("base")
	verifAssume(base >= 0)
	verifAssume(base < 1<<62)
	q := NewCircularQueue(n)
	var held []int
	for i := 0; i < cnt; i++ {
		t := c18Tag(i)
		q.Items[base+i] = rtcm.Message{MessageType: t}
		held = append(held, t)
	}
	q.NextIndex = base + cnt
	verifWitness("reached")
	c18CheckSnapshot("pre-state", q, held)
	t := c18Tag(cnt)
	q.Add(rtcm.Message{MessageType: t})
	held = append(held, t)
	if len(held) > n {
		held = held[1:]
	}
	verifAssert("never-more-than-capacity", len(q.Items) <= n)
	c18CheckSnapshot("post-state", q, held)
	// invariant: the keys are again the contiguous range ending at NextIndex
	okKeys := q.NextIndex == base+cnt+1
	for i := 0; i < len(held); i++ {
		_, present := q.Items[q.NextIndex-len(held)+i]
		okKeys = okKeys && present
	}
	if !okKeys {
		// The induction does not close for this representation (say an
		// index that wraps).  That alone is not a misbehaviour a caller can
		// see: follow the queue for as many further additions as replace
		// its whole content twice and judge by the snapshots only.
		verifWitness("invariant-not-inductive")
		for j := 0; j < 2*n+2; j++ {
			t := c18Tag(cnt + 1 + j)
			q.Add(rtcm.Message{MessageType: t})
			held = append(held, t)
			if len(held) > n {
				held = held[1:]
			}
			verifAssert("never-more-than-capacity", len(q.Items) <= n)
			c18CheckSnapshot("after-leaving-the-invariant", q, held)
		}
	}
	verifWitness("returned")
}

// Lock discipline: what makes the sequential results carry over to
// concurrent callers.  From any state of the histories above, on every path
// of Add every access to Items and NextIndex happens with the write lock
// held, on every path of GetMessages with at least the read lock, and the
// lock is free again on return.  (Natively the same is exercised by a
// concurrent stress run under the Go race detector.)
func VerifC18_LockDiscipline() {
	verifOwnPanics()
	verifMapOrder()
	n := verifParam("capacity", 1, 3)
	cnt := verifParam("held", 0, n)
	q := NewCircularQueue(n)
	for i := 0; i < cnt; i++ {
		q.Add(rtcm.Message{MessageType: c18Tag(i)})
	}
	verifWitness("reached")
	verifGuardedBy(q.RWMutex, "queue-state", &q.Items, &q.NextIndex)
	verifGuardOn()
	if verifParam("op", 0, 1) == 0 {
		q.Add(rtcm.Message{MessageType: c18Tag(cnt)})
	} else {
		_ = q.GetMessages()
	}
	verifGuardOff()
	verifAssert("lock-released-on-return", verifRWMutexFree(q.RWMutex))
	verifRaceStress(
		func() {
			for i := 0; i < 300; i++ {
				q.Add(rtcm.Message{MessageType: i})
			}
		},
		func() {
			for i := 0; i < 300; i++ {
				_ = q.GetMessages()
			}
		},
		func() {
			for i := 0; i < 300; i++ {
				q.Add(rtcm.Message{MessageType: -i})
			}
		})
	verifWitness("returned")
}

// Concurrent use: one adder, one reader taking snapshots meanwhile.  Every
// snapshot must be a contiguous run of the addition order consistent with
// real time: the last min(N, m) of the first m messages, for some m between
// the additions finished before the snapshot started and those started before
// it returned.  The engine explores the lazy, the round-robin and every
// one-preemption schedule (switches at lock operations) of one small round;
// natively the round is repeated with larger numbers on real threads.
type c18Counter struct {
	mu sync.Mutex
	n  int
}

func (c *c18Counter) inc() {
	c.mu.Lock()
	c.n++
	c.mu.Unlock()
}

func (c *c18Counter) get() int {
	c.mu.Lock()
	defer c.mu.Unlock()
	return c.n
}

// c18SnapIs: snap is the last min(n, m) of the messages 1..m.
func c18SnapIs(snap []rtcm.Message, n, m int) bool {
	k := m
	if k > n {
		k = n
	}
	if len(snap) != k {
		return false
	}
	for i := 0; i < k; i++ {
		if snap[i].MessageType != m-k+1+i {
			return false
		}
	}
	return true
}

func c18Round(n, adds, snaps int) bool {
	q := NewCircularQueue(n)
	var started, finished c18Counter
	// the queue is already full when the reader starts: every further
	// addition evicts
	for i := 1; i <= n; i++ {
		started.inc()
		q.Add(rtcm.Message{MessageType: i})
		finished.inc()
	}
	done := make(chan struct{})
	go func() {
		for i := n + 1; i <= adds; i++ {
			started.inc()
			q.Add(rtcm.Message{MessageType: i})
			finished.inc()
		}
		close(done)
	}()
	ok := true
	for s := 0; s < snaps; s++ {
		lo := finished.get()
		snap := q.GetMessages()
		hi := started.get()
		match := false
		for m := lo; m <= hi; m++ {
			if c18SnapIs(snap, n, m) {
				match = true
			}
		}
		ok = ok && match
	}
	<-done
	return ok && c18SnapIs(q.GetMessages(), n, adds)
}

func VerifC18_Concurrent() {
	verifOwnPanics()
	mode := verifParam("schedule", 0, 2)
	verifSchedule(mode, 1+verifTier()) // thorough: up to two preemptions
	n := verifParam("capacity", 1, 3)
	verifWitness("reached")
	ok := c18Round(n, n+2, 2)
	for r := 1; r < verifNativeRepeat(); r++ {
		ok = ok && c18Round(n, 40*(n+2), 80)
	}
	verifWitness("returned")
	verifAssert("every-snapshot-is-a-consistent-contiguous-run", ok)
}
