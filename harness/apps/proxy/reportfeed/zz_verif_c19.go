//go:build verifharness

package reportfeed

// C19 (report) — every piece of traffic-derived text in the status report is
// HTML-escaped.  The page is built by the real Status() from client and
// server buffers and recent messages whose bytes are all symbolic.  The
// page's own markup is fixed: the page for the same traffic shape with
// harmless bytes has a certain number of '<' and '>' characters; no choice
// of traffic bytes may add another one.

import (
	"github.com/goblimey/go-crc24q/crc24q"
	circularQueue "github.com/goblimey/go-ntrip/apps/proxy/circular_queue"
	rtcm "github.com/goblimey/go-ntrip/rtcm/handler"
)

func init() {
	verifRegister("VerifC19_ReportEscapesTraffic", VerifC19_ReportEscapesTraffic)
}

func c19Frame(p []byte) []byte {
	f := []byte{0xd3, byte(len(p)>>8) & 3, byte(len(p))}
	f = append(f, p...)
	crc := crc24q.Hash(f)
	return append(f, byte(crc>>16), byte(crc>>8), byte(crc))
}

// c19Page builds the status page for the given traffic.
func c19Page(client, server, junk, payload []byte, level int) []byte {
	return c19PageErr(client, server, junk, payload, nil, level)
}

// errPayload: a CRC-valid frame that could not be decoded (a type 1005 cut
// short) and therefore carries an error text.
func c19PageErr(client, server, junk, payload, errPayload []byte, level int) []byte {
	q := circularQueue.NewCircularQueue(3)
	if len(junk) > 0 {
		q.Add(*rtcm.NewNonRTCM(junk))
	}
	if len(payload) > 0 {
		p := append([]byte(nil), payload...)
		p[0] = 0x4c // type 1230
		p[1] = 0xe0 | p[1]&0x0f
		m := rtcm.NewMessage(1230, "", c19Frame(p), 0)
		if level == 1 {
			m.LogLevel = -4 // slog.LevelDebug
		}
		q.Add(*m)
	}
	if len(errPayload) > 0 {
		p := append([]byte(nil), errPayload...)
		p[0] = 0x3e // type 1005
		p[1] = 0xd0 | p[1]&0x0f
		m := rtcm.NewMessage(1005, "bitstream is too short for a type 1005 message", c19Frame(p), 0)
		if level == 1 {
			m.LogLevel = -4
		}
		q.Add(*m)
	}
	rf := New(nil, q)
	if len(client) > 0 {
		c := append([]byte(nil), client...)
		rf.RecordClientBuffer(&c, 1, len(c))
	}
	if len(server) > 0 {
		s := append([]byte(nil), server...)
		rf.RecordServerBuffer(&s, 1, len(s))
	}
	return rf.Status()
}

func c19Harmless(n int) []byte {
	b := make([]byte, n)
	for i := range b {
		b[i] = 'A'
	}
	return b
}

func VerifC19_ReportEscapesTraffic() {
	verifOwnPanics()
	verifHexModel()
	verifFixedClock(1676376000 * 1000000000)
	// one traffic source at a time carries symbolic bytes (the page is a
	// concatenation of independently rendered sections; escaping forks three
	// ways per byte, so the sections are explored separately)
	source := verifParam("source", 0, 4)
	n := verifParam("bytes", 1, 3)
	nc, ns, nj, np, ne := 0, 0, 0, 0, 0
	switch source {
	case 0:
		nc = n
	case 1:
		ns = n
	case 2:
		nj = n
	case 3:
		np = n
		if np == 1 {
			np = 2 // a payload holds at least the 12-bit type
		}
	default:
		// a message that carries an error text (a CRC-valid frame that
		// could not be decoded)
		ne = n + 1
	}
	level := verifParam("debug", 0, 1)
	client, server := verifBytes("c", nc), verifBytes("s", ns)
	junk, payload, errPayload := verifBytes("j", nj), verifBytes("p", np), verifBytes("e", ne)
	verifWitness("reached")
	page := c19PageErr(client, server, junk, payload, errPayload, level)
	plain := c19PageErr(c19Harmless(nc), c19Harmless(ns), c19Harmless(nj), c19Harmless(np), c19Harmless(ne), level)
	verifWitness("returned")
	verifAssert("no-traffic-byte-opens-a-tag", verifCountByte(page, '<') == verifCountByte(plain, '<'))
	verifAssert("no-traffic-byte-closes-a-tag", verifCountByte(page, '>') == verifCountByte(plain, '>'))
}
