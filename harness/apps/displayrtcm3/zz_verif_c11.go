//go:build verifharness

package main

// C11 — when displayrtcm3's message handling returns, all output has been
// written.  The real HandleMessages runs with the real file handler, framing
// goroutine and display goroutine under the engine's scheduler; the writer
// is slow (every Write is a point where the other goroutines may run, natively
// a sleep).  At the instant HandleMessages returns the writer must already
// hold everything it holds once all goroutines have come to rest.

import (
	"io"
	"sync"

	"github.com/goblimey/go-crc24q/crc24q"
	"github.com/goblimey/go-ntrip/jsonconfig"
)

func init() {
	verifRegister("VerifC11_DisplayOutputCompleteAtReturn", VerifC11_DisplayOutputCompleteAtReturn)
}

type c11Writer struct {
	mu     sync.Mutex
	data   []byte
	writes int
}

func (w *c11Writer) Write(p []byte) (int, error) {
	verifSlow()
	w.mu.Lock()
	w.data = append(w.data, p...)
	w.writes++
	w.mu.Unlock()
	return len(p), nil
}

func (w *c11Writer) size() (int, int) {
	w.mu.Lock()
	defer w.mu.Unlock()
	return len(w.data), w.writes
}

type c11Source struct {
	data []byte
	pos  int
}

func (s *c11Source) Read(p []byte) (int, error) {
	if s.pos >= len(s.data) {
		return 0, io.EOF
	}
	n := copy(p, s.data[s.pos:])
	s.pos += n
	return n, nil
}

// c11Frame: a CRC-valid frame of a type the display does not decode further
// (1230), with symbolic payload bytes after the 12-bit type.
func c11Frame(name string, payloadLen int) []byte {
	p := verifBytes(name, payloadLen)
	p[0] = 0x4c // 1230 = 0x4ce
	p[1] = 0xe0 | p[1]&0x0f
	f := []byte{0xd3, byte(payloadLen>>8) & 3, byte(payloadLen)}
	f = append(f, p...)
	crc := crc24q.Hash(f)
	return append(f, byte(crc>>16), byte(crc>>8), byte(crc))
}

func c11Input() []byte {
	var in []byte
	k := verifParam("messages", 1, 3)
	for i := 0; i < k; i++ {
		in = append(in, c11Frame(string(rune('a'+i)), 3)...)
	}
	if verifParam("junk-tail", 0, 1) == 1 {
		in = append(in, 'x', 'y')
	}
	return in
}

func VerifC11_DisplayOutputCompleteAtReturn() {
	verifOwnPanics()
	verifHexModel()
	mode := verifParam("schedule", 0, 2) // lazy, round-robin, all schedules with <= 1 preemption
	verifSchedule(mode, 1+verifTier())   // thorough: up to two preemptions
	in := c11Input()
	w := &c11Writer{}
	verifWitness("reached")
	HandleMessages(verifTimeOf(1676376000*1000000000), &c11Source{data: in}, w, &jsonconfig.Config{})
	atReturnBytes, atReturnWrites := w.size()
	verifWitness("returned")
	verifQuiesce()
	finalBytes, finalWrites := w.size()
	verifAssert("all-output-written-when-handling-returns", verifAnd(atReturnBytes == finalBytes, atReturnWrites == finalWrites))
}
