//go:build verifharness

package main

// C16 — rtcmlogger passes its input through unchanged and records an
// identical copy.  The real start(cfg) runs: the copying loop on a scripted
// os.Stdin (every chunk size), the recorder goroutine on the daily logger
// (a recording writer in the engine, the real logger in a scratch directory
// natively).  When start returns the program exits: at that instant stdout
// and the day's record file must both hold exactly the input.

import (
	"github.com/goblimey/go-ntrip/apps/rtcmlogger/config"
)

func init() {
	verifRegister("VerifC16_PassThroughAndRecord", VerifC16_PassThroughAndRecord)
}

func VerifC16_PassThroughAndRecord() {
	verifOwnPanics()
	mode := verifParam("schedule", 0, 2) // lazy, round-robin, <= 1 preemption
	verifSchedule(mode, 1+verifTier())   // thorough: up to two preemptions
	n := verifParam("length", 0, 5)
	chunk := verifParam("chunk", 1, 3)
	if mode == 0 && verifParam("full-blocks", 0, 1) == 1 {
		// inputs around the size of the 8096-byte block, each read filling
		// the buffer as far as it can (lazy schedule only)
		n = bufferLength - 1 + verifParam("over", 0, 2)
		chunk = bufferLength
	}
	in := verifBytes("in", n)
	dir := verifTempDir()
	defer verifRemoveDir(dir)
	cfg := &config.Config{MessageLogDirectory: dir}
	verifWatchDailyLog(dir, "rtcmlogger.", ".rtcm")
	verifSetStdin(in, chunk)
	// the consumer of standard output may have gone (every write fails):
	// the record must be complete all the same
	broken := mode == 0 && n <= 5 && verifParam("stdout-broken", 0, 1) == 1
	if broken {
		verifStdoutBroken()
	}
	verifWitness("reached")
	start(cfg)
	recordedAtExit := verifDailyLog(dir, "rtcmlogger.")
	verifRestoreStdio()
	verifWitness("returned")
	out := verifStdout()
	if !broken {
		verifAssert("stdout-identical-to-stdin", verifBytesEq(out, in))
	}
	verifAssert("record-complete-when-the-program-ends", verifBytesEq(recordedAtExit, in))
	verifQuiesce()
	verifAssert("record-identical-to-stdin", verifBytesEq(verifDailyLog(dir, "rtcmlogger."), in))
}
