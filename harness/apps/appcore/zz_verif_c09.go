//go:build verifharness

package appcore

// C09 — the reader-to-sinks pipeline delivers the same messages under every
// schedule.  The real HandleMessagesUntilEOF (file handler goroutine, framing
// goroutine, fan-out loop) runs under the engine's scheduler with consumer
// goroutines of different speeds and channel capacities and a nil entry in
// the consumer list; the input is read in chunks of a chosen size.  Every
// non-nil consumer must receive exactly the sequence that sequential framing
// of the same bytes produces.

import (
	"bufio"
	"io"
	"log/slog"
	"sync"

	"github.com/goblimey/go-crc24q/crc24q"
	"github.com/goblimey/go-ntrip/jsonconfig"
	rtcm "github.com/goblimey/go-ntrip/rtcm/handler"
	"github.com/goblimey/go-ntrip/rtcm/utils"
)

func init() {
	verifRegister("VerifC09_FanOut", VerifC09_FanOut)
}

type c09Source struct {
	data    []byte
	pos     int
	chunk   int
	withEOF bool // the call that returns the last bytes reports io.EOF as well
	hiccup  bool // one transient EOF after the first chunk
	pause   bool // a pause of 400 ms before the third read (inside a frame when the chunks are small)
	reads   int
}

func (s *c09Source) Read(p []byte) (int, error) {
	s.reads++
	if s.pause && s.reads == 3 {
		verifAdvanceClock(400 * 1000000)
	}
	if s.hiccup && s.reads == 2 {
		return 0, io.EOF
	}
	if s.pos >= len(s.data) {
		return 0, io.EOF
	}
	end := s.pos + s.chunk
	if end > len(s.data) {
		end = len(s.data)
	}
	n := copy(p, s.data[s.pos:end])
	s.pos += n
	if s.withEOF && s.pos >= len(s.data) {
		return n, io.EOF
	}
	return n, nil
}

func c09Frame(name string, payloadLen int) []byte {
	p := verifBytes(name, payloadLen)
	p[0] = 0x4c // type 1230
	p[1] = 0xe0 | p[1]&0x0f
	f := []byte{0xd3, byte(payloadLen>>8) & 3, byte(payloadLen)}
	f = append(f, p...)
	crc := crc24q.Hash(f)
	return append(f, byte(crc>>16), byte(crc>>8), byte(crc))
}

var c09Shape = 0

// c09Input: a stream shape chosen by parameter: frames and junk runs with
// symbolic contents.
// c09LongShape: the shape with more than a kilobyte of input (explored under
// the lazy and the round-robin schedule only).
const c09LongShape = 4

// c09Want: for the long shape the expected messages are built here,
// independently of the framing code (the sequential reference would read the
// same preloaded channel through the same code).
var c09Want []rtcm.Message

func c09Input() []byte {
	var in []byte
	c09Want = nil
	switch c09Shape {
	case c09LongShape:
		// other data, a short frame, a frame of the maximum length with
		// fixed contents, a short frame: 1 054 bytes, so a reader that runs
		// ahead has more than a kilobyte waiting when the framing starts
		j := verifBytes("j", 2)
		verifAssume(j[0] != 0xd3)
		verifAssume(j[1] != 0xd3)
		a := c09Frame("a", 2)
		long := make([]byte, 1023)
		for i := range long {
			long[i] = byte(i%200 + 1)
		}
		long[0], long[1] = 0x4c, 0xe1
		lf := []byte{0xd3, 0x03, 0xff}
		lf = append(lf, long...)
		crc := crc24q.Hash(lf)
		lf = append(lf, byte(crc>>16), byte(crc>>8), byte(crc))
		b := c09Frame("b", 3)
		in = append(in, j...)
		in = append(in, a...)
		in = append(in, lf...)
		in = append(in, b...)
		c09Want = []rtcm.Message{{MessageType: utils.NonRTCMMessage, RawData: j}, {MessageType: 1230, RawData: a},
			{MessageType: 1230, RawData: lf}, {MessageType: 1230, RawData: b}}
	case 0:
		in = append(in, c09Frame("a", 2)...)
	case 1:
		in = append(in, c09Frame("a", 2)...)
		in = append(in, c09Frame("b", 3)...)
	case 2:
		j := verifBytes("j", 2)
		verifAssume(j[0] != 0xd3)
		verifAssume(j[1] != 0xd3)
		in = append(in, j...)
		in = append(in, c09Frame("a", 2)...)
	default:
		in = append(in, c09Frame("a", 2)...)
		in = append(in, 0xd3, 0x00) // a truncated frame at the end of input
	}
	return in
}

// c09Sequential: what sequential framing of the bytes produces.
func c09Sequential(in []byte) []rtcm.Message {
	ch := make(chan byte, len(in)+1)
	for _, b := range in {
		ch <- b
	}
	close(ch)
	out := make(chan rtcm.Message, len(in)+2)
	rtcm.New(verifTimeOf(1676376000*1000000000), slog.LevelDebug).HandleMessages(ch, out)
	var ms []rtcm.Message
	for m := range out {
		ms = append(ms, m)
	}
	return ms
}

type c09Consumer struct {
	mu   sync.Mutex
	got  []rtcm.Message
	slow bool
	done chan struct{}
}

func (c *c09Consumer) run(ch chan rtcm.Message) {
	for m := range ch {
		if c.slow {
			verifSlow()
		}
		c.mu.Lock()
		c.got = append(c.got, m)
		c.mu.Unlock()
	}
	close(c.done)
}

func c09Same(a, b []rtcm.Message) bool {
	if len(a) != len(b) {
		return false
	}
	ok := true
	for i := range a {
		ok = verifAnd(ok, verifAnd(a[i].MessageType == b[i].MessageType, verifBytesEq(a[i].RawData, b[i].RawData)))
	}
	return ok
}

func VerifC09_FanOut() {
	verifOwnPanics()
	c09Shape = verifParam("shape", 0, 4)
	maxMode := 2
	if c09Shape == c09LongShape {
		maxMode = 1 // a kilobyte byte by byte: one-preemption schedules would be thousands
	}
	mode := verifParam("schedule", 0, maxMode) // lazy, round-robin, <= 1 preemption
	verifSchedule(mode, 1)
	in := c09Input()
	want := c09Want
	if want == nil {
		want = c09Sequential(in)
	}
	// chunks of one byte, of two bytes with the last one reported together
	// with io.EOF (the io.Reader contract allows both), or everything at once
	chunk := []int{1, 2, 64}[verifParam("chunk", 0, 2)]
	caps := [][2]int{{0, 2}, {1, 0}, {0, 0}}[verifParam("capacities", 0, 2)]
	chA := make(chan rtcm.Message, caps[0])
	chB := make(chan rtcm.Message, caps[1])
	fast := &c09Consumer{done: make(chan struct{})}
	slow := &c09Consumer{slow: true, done: make(chan struct{})}
	go fast.run(chA)
	go slow.run(chB)
	// tolerance on end of file: none (stop at the first EOF) or 200 ms with a
	// transient EOF after the first chunk (the source then stays silent at
	// the end until the handler gives up); realistic clock, 50 ms jitter
	verifClockModel(50 * 1000000)
	cfg := &jsonconfig.Config{}
	hiccup := false
	if verifParam("tolerance", 0, 1) == 1 {
		cfg.TimeoutOnEOFMilliSeconds = 200
		hiccup = true
	}
	// the source may stall for 400 ms in the middle of the input ("however
	// the bytes are chunked in time")
	pause := verifParam("stall", 0, 1) == 1
	core := New(cfg, []chan rtcm.Message{chA, nil, chB})
	verifWitness("reached")
	ret := core.HandleMessagesUntilEOF(verifTimeOf(1676376000*1000000000), bufio.NewReader(&c09Source{data: in, chunk: chunk, hiccup: hiccup, pause: pause, withEOF: chunk == 2}))
	verifWitness("returned")
	verifAssert("returns-continue-on-end-of-input", ret == 0)
	// the caller owns the consumer channels: close them and let everything
	// come to rest (a consumer that never finishes is a deadlock / hang)
	close(chA)
	close(chB)
	<-fast.done
	<-slow.done
	verifQuiesce()
	verifAssert("fast-consumer-got-the-sequential-framing", c09Same(fast.got, want))
	verifAssert("slow-consumer-got-the-sequential-framing", c09Same(slow.got, want))
	verifAssert("helper-goroutines-finished", verifLiveGoroutines() == 0)
}
