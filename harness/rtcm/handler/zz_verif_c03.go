//go:build verifharness

package handler

// C03 — every valid frame not preceded by a stray 0xD3 is recognised, once,
//       in order.
// C12 — a frame corrupted in payload or CRC is discarded alone.
//
// A stream is a sequence of segments.  The segment *shapes* (kind and
// length) are enumerated instance by instance; the *contents* (every payload
// byte, hence every message type and every CRC value, and every junk byte)
// are symbolic.

import (
	"log/slog"

	"github.com/goblimey/go-crc24q/crc24q"
)

func init() {
	verifRegister("VerifC03_Segments", VerifC03_Segments)
	verifRegister("VerifC03_LongFrames", VerifC03_LongFrames)
	verifRegister("VerifC12_Corrupted", VerifC12_Corrupted)
	verifRegister("VerifC12_CorruptedLong", VerifC12_CorruptedLong)
	verifRegister("VerifC02_H5_CorruptedSegments", VerifC02_H5_CorruptedSegments)
	verifRegister("VerifC03_LongJunk", VerifC03_LongJunk)
	verifRegister("VerifC12_NeighbourTimes", VerifC12_NeighbourTimes)
	verifRegister("VerifC02_H7_LongJunk", VerifC02_H7_LongJunk)
}

type c03Segment struct {
	typ   int // -1 for non-RTCM
	bytes []byte
}

func c03PayloadLengths() []int {
	if verifTier() > 0 {
		return []int{1, 2, 3, 5, 8}
	}
	return []int{1, 2, 3, 5}
}

// c03ShortJunk: set by a harness that keeps the quick junk lengths in the
// thorough tier (C02_H5: 47 minutes otherwise).
var c03ShortJunk = false

func c03JunkLengths() []int {
	if verifTier() > 0 && !c03ShortJunk {
		return []int{1, 2, 3, 8}
	}
	return []int{1, 2, 3}
}

// c03Junk: n bytes, none of them 0xD3.
func c03Junk(name string, n int) []byte {
	b := verifBytes(name, n)
	for i := range b {
		verifAssume(b[i] != 0xd3)
	}
	return b
}

// c03Frame: a valid frame with an arbitrary payload of l bytes.
func c03Frame(name string, l int) []byte {
	return vfFrame(verifBytes(name, l))
}

// c03BuildStream enumerates one shape and returns the stream and the
// expected segments.  victim >= 0 asks for the index of a frame segment.
func c03BuildStream(maxSegs int, allowTruncatedTail bool) (stream []byte, want []c03Segment, frameIdx []int) {
	ls := c03PayloadLengths()
	js := c03JunkLengths()
	nseg := verifParam("segments", 1, maxSegs)
	prevJunk := false
	for i := 0; i < nseg; i++ {
		name := "s" + string(rune('0'+i))
		kind := verifParam(name+".kind", 0, 1)
		if kind == 0 {
			if prevJunk {
				verifAssume(false) // adjacent junk runs are one run: not a distinct shape
			}
			j := js[verifParam(name+".len", 0, len(js)-1)]
			b := c03Junk(name, j)
			stream = append(stream, b...)
			want = append(want, c03Segment{-1, b})
			prevJunk = true
		} else {
			l := ls[verifParam(name+".len", 0, len(ls)-1)]
			f := c03Frame(name, l)
			stream = append(stream, f...)
			want = append(want, c03Segment{first12PayloadBits(f), f})
			frameIdx = append(frameIdx, len(want)-1)
			prevJunk = false
		}
	}
	// the truncated tail: after at most two full segments (quick) so that
	// every truncation point of every listed length is covered
	// (in both tiers: with three full segments of the thorough lengths before
	// the tail the shapes exceed a million)
	tailAfter := 2
	if allowTruncatedTail && nseg <= tailAfter && verifParam("tail", 0, 1) == 1 {
		l := ls[verifParam("tail.len", 0, len(ls)-1)]
		f := c03Frame("tail", l)
		t := verifParam("tail.cut", 1, len(f)-1)
		stream = append(stream, f[:t]...)
		want = append(want, c03Segment{-1, f[:t]})
	}
	return
}

func c03Run(stream []byte) []Message {
	out := make(chan Message, len(stream)+2)
	h := New(verifTimeOf(vfTuesdayNoon), slog.LevelInfo)
	h.HandleMessages(c01Source(stream), out)
	return c01Drain(out)
}

func c03Check(prefix string, got []Message, want []c03Segment) {
	verifAssert(prefix+"one-message-per-segment", len(got) == len(want))
	if len(got) != len(want) {
		return
	}
	for i := range want {
		verifAssert(prefix+"segment-type", got[i].MessageType == want[i].typ)
		verifAssert(prefix+"segment-bytes", verifBytesEq(got[i].RawData, want[i].bytes))
	}
}

func VerifC03_Segments() {
	verifOwnDeadlocks()
	maxSegs := 3
	if verifTier() > 0 {
		maxSegs = 3
	}
	stream, want, _ := c03BuildStream(maxSegs, true)
	verifWitness("reached")
	got := c03Run(stream)
	verifWitness("handled")
	c03Check("", got, want)
}

// Long frames: payload lengths around the byte boundary of the 10-bit length
// and at its maximum, alone, after junk, and back to back with a short frame.
func VerifC03_LongFrames() {
	verifOwnDeadlocks()
	ls := []int{255, 256, 257, 1022, 1023}
	if verifTier() == 0 {
		ls = []int{255, 256, 1023}
	}
	l := ls[verifParam("len", 0, len(ls)-1)]
	shape := verifParam("shape", 0, 2)
	var stream []byte
	var want []c03Segment
	if shape == 1 {
		j := c03Junk("junk", 2)
		stream = append(stream, j...)
		want = append(want, c03Segment{-1, j})
	}
	// the payload: first two and last two bytes symbolic (type, and bytes
	// next to the CRC), the rest a fixed pattern containing 0xd3 bytes
	payload := make([]byte, l)
	for i := range payload {
		payload[i] = byte(i*7 + 3)
		if i%50 == 9 {
			payload[i] = 0xd3
		}
	}
	sym := verifBytes("edge", 4)
	payload[0], payload[1], payload[l-2], payload[l-1] = sym[0], sym[1], sym[2], sym[3]
	f := vfFrame(payload)
	stream = append(stream, f...)
	want = append(want, c03Segment{first12PayloadBits(f), f})
	if shape == 2 {
		g := c03Frame("next", 2)
		stream = append(stream, g...)
		want = append(want, c03Segment{first12PayloadBits(g), g})
	}
	verifWitness("reached")
	got := c03Run(stream)
	verifWitness("handled")
	c03Check("", got, want)
}

// c12Corrupt XORs the payload and CRC bytes of the frame (the leader is left
// alone) with a symbolic difference, assumed to break the CRC.
func c12Corrupt(frame []byte, name string) []byte {
	n := len(frame)
	diff := verifBytes(name, n-3)
	bad := make([]byte, n)
	copy(bad, frame[:3])
	for i := 3; i < n; i++ {
		bad[i] = frame[i] ^ diff[i-3]
	}
	crc := crc24q.Hash(bad[:n-3])
	crcStillMatches := verifAnd(verifAnd(byte(crc>>16) == bad[n-3], byte(crc>>8) == bad[n-2]), byte(crc) == bad[n-1])
	verifAssume(!crcStillMatches)
	return bad
}

func VerifC12_Corrupted() {
	verifOwnDeadlocks()
	maxSegs := 3
	c03ShortJunk = true // thorough: junk runs of 1..3 bytes as in quick (50 minutes otherwise)
	stream, want, frames := c03BuildStream(maxSegs, false)
	c03ShortJunk = false
	if len(frames) == 0 {
		verifAssume(false)
	}
	v := frames[verifParam("victim", 0, len(frames)-1)]
	bad := c12Corrupt(want[v].bytes, "diff")
	// rebuild the stream with the victim replaced
	var stream2 []byte
	want2 := make([]c03Segment, len(want))
	copy(want2, want)
	want2[v] = c03Segment{-1, bad}
	for i := range want2 {
		stream2 = append(stream2, want2[i].bytes...)
	}
	_ = stream
	verifWitness("reached")
	got := c03Run(stream2)
	verifWitness("handled")
	// A corrupted frame directly followed or preceded by junk: the property
	// counts the frame as its own message (it is not "other data").
	c03Check("corrupted-", got, want2)
}

func VerifC12_CorruptedLong() {
	verifOwnDeadlocks()
	ls := []int{255, 256, 1023}
	l := ls[verifParam("len", 0, len(ls)-1)]
	payload := make([]byte, l)
	for i := range payload {
		payload[i] = byte(i*11 + 1)
	}
	f := vfFrame(payload)
	// corrupt one symbolic position with a symbolic non-zero byte
	pos := 3 + verifParam("pos", 0, 3)*((l+2)/3)
	if pos >= len(f) {
		pos = len(f) - 1
	}
	d := verifU8("d")
	verifAssume(d != 0)
	bad := make([]byte, len(f))
	copy(bad, f)
	bad[pos] ^= d
	g := c03Frame("next", 2)
	var stream []byte
	stream = append(stream, bad...)
	stream = append(stream, g...)
	want := []c03Segment{{-1, bad}, {first12PayloadBits(g), g}}
	verifWitness("reached")
	got := c03Run(stream)
	verifWitness("handled")
	c03Check("corrupted-", got, want)
}

// C02 on longer, structured streams: C12's family (segments with one victim
// frame corrupted by a symbolic difference, which may put 0xD3 bytes anywhere
// inside it) -- whatever the handler makes of the victim, the delivered bytes
// must still concatenate to the input and no message may be empty.
func VerifC02_H5_CorruptedSegments() {
	verifOwnDeadlocks()
	c03ShortJunk = true
	stream, want, frames := c03BuildStream(3, false)
	c03ShortJunk = false
	if len(frames) == 0 {
		verifAssume(false)
	}
	v := frames[verifParam("victim", 0, len(frames)-1)]
	bad := c12Corrupt(want[v].bytes, "diff")
	var stream2 []byte
	for i := range want {
		if i == v {
			stream2 = append(stream2, bad...)
		} else {
			stream2 = append(stream2, want[i].bytes...)
		}
	}
	_ = stream
	verifWitness("reached")
	got := c03Run(stream2)
	verifWitness("handled")
	var cat []byte
	empty := false
	for i := range got {
		if len(got[i].RawData) == 0 {
			empty = true
		}
		cat = append(cat, got[i].RawData...)
	}
	verifAssert("no-empty-message", !empty)
	verifAssert("concatenation-equals-input", verifBytesEq(cat, stream2))
}

// Long runs of other data: a run of n bytes (one symbolic value that is not
// 0xD3, repeated), n around the sizes at which an implementation might cut
// a run into pieces (1029 = the longest frame, 4096, 8192), then a frame
// with symbolic payload and two more bytes.  How the run itself is cut into
// non-RTCM messages is left open; required are: no empty message, the
// delivered bytes concatenate to the input, and the frame is recognised
// exactly once, typed, with exactly its bytes.  (Registered under C02 and
// C03.)
func VerifC03_LongJunk() {
	verifOwnDeadlocks()
	lens := []int{1029, 1030, 4095, 4096, 4097, 8192, 8193}
	n := lens[verifParam("run", 0, len(lens)-1)]
	j := verifU8("junk")
	verifAssume(j != 0xd3)
	var stream []byte
	for i := 0; i < n; i++ {
		stream = append(stream, j)
	}
	f := c03Frame("f", 2)
	stream = append(stream, f...)
	tail := c03Junk("t", 2)
	stream = append(stream, tail...)
	verifWitness("reached")
	got := c03Run(stream)
	verifWitness("handled")
	var cat []byte
	empty := false
	typed := 0
	var last Message
	for i := range got {
		if len(got[i].RawData) == 0 {
			empty = true
		}
		cat = append(cat, got[i].RawData...)
		if got[i].MessageType >= 0 {
			typed++
			last = got[i]
		}
	}
	verifAssert("no-empty-message", !empty)
	verifAssert("concatenation-equals-input", verifBytesEq(cat, stream))
	verifAssert("frame-after-long-run-recognised-once", typed == 1)
	if typed == 1 {
		verifAssert("frame-after-long-run-bytes", verifBytesEq(last.RawData, f))
		verifAssert("frame-after-long-run-type", last.MessageType == first12PayloadBits(f))
	}
}

func VerifC02_H7_LongJunk() { VerifC03_LongJunk() }

// C12, the neighbours' times: "every other segment is delivered exactly as
// it would have been without the corruption" includes the time an MSM
// message is reported with, which follows the handler's history.  An MSM
// frame A, a victim MSM frame of the same constellation whose payload
// (timestamp included: 30 symbolic bits) was altered so that its CRC fails,
// then an MSM frame B: B must be reported with the type, bytes, time and
// start of week that the handler reports for A directly followed by B.
func VerifC12_NeighbourTimes() {
	c := verifParam("constellation", 0, 3)
	msgType := uint64([]int{1077, 1097, 1087, 1127}[c])
	mk := func(ts uint64) []byte {
		p := make([]byte, 10)
		c07SetBits(p, 0, 12, msgType)
		c07SetBits(p, 12, 12, 5)
		c07SetBits(p, 24, 30, ts)
		return p
	}
	// Tuesday noon, in each constellation's own terms (GLONASS: day 2)
	tsA, tsB := uint64(2*86400000+43200000), uint64(2*86400000+43201000)
	if c == 2 {
		tsA, tsB = 2<<27|54000000, 2<<27|54001000
	}
	a, b := vfFrame(mk(tsA)), vfFrame(mk(tsB))
	// the victim: symbolic timestamp and filler, the CRC of the result with
	// its last bit flipped (so it never matches)
	vp := verifBytes("v", 10)
	c07SetBits(vp, 0, 12, msgType)
	victim := vfFrame(vp)
	victim[len(victim)-1] ^= 1
	verifWitness("reached")
	h1 := New(verifTimeOf(vfTuesdayNoon), slog.LevelInfo)
	ma, _ := h1.GetMessage(a)
	mv, _ := h1.GetMessage(victim)
	mb, _ := h1.GetMessage(b)
	h2 := New(verifTimeOf(vfTuesdayNoon), slog.LevelInfo)
	_, _ = h2.GetMessage(a)
	wb, _ := h2.GetMessage(b)
	verifWitness("handled")
	if ma == nil || mv == nil || mb == nil || wb == nil {
		verifAssert("messages-delivered", false)
		return
	}
	verifAssert("victim-is-non-rtcm-with-its-bytes", verifAnd(mv.MessageType < 0, verifBytesEq(mv.RawData, victim)))
	verifAssert("neighbour-type", mb.MessageType == wb.MessageType)
	verifAssert("neighbour-bytes", verifBytesEq(mb.RawData, wb.RawData))
	verifAssert("neighbour-error-text", verifStrEq(mb.ErrorMessage, wb.ErrorMessage))
	verifAssert("neighbour-time", verifStrEq(mb.SentAt, wb.SentAt))
	verifAssert("neighbour-start-of-week", verifStrEq(mb.StartOfWeek, wb.StartOfWeek))
}
