//go:build verifharness

package handler

// C07 (b) — no input can crash or hang decoding or display: CRC-valid
// frames of each decodable type (1005, 1006, the MSM4 and MSM7 families)
// whose payload is otherwise ARBITRARY, at every payload length from one
// byte to past the complete message, pushed through GetMessage, Analyse and
// String() at both log levels.  Every Go safety condition reached on the way
// is an obligation.
//
// The MSM satellite and signal masks are concrete per instance (a symbolic
// 64-bit mask would fork 2^64 ways in the mask-expansion loops); the shape
// family includes shapes that announce more than a frame can hold.  All other
// payload bits -- the header fields, the multiple-message flag, the cell
// mask (up to a stated number of cells), every satellite and signal field and
// whatever follows -- are symbolic.

import (
	"log/slog"
)

func init() {
	verifRegister("VerifC07_B1_BasePosition", VerifC07_B1_BasePosition)
	verifRegister("VerifC07_B2_MSM", VerifC07_B2_MSM)
	verifRegister("VerifC07_B3_MSMOverflow", VerifC07_B3_MSMOverflow)
	verifRegister("VerifC07_D_Successive", VerifC07_D_Successive)
	verifRegister("VerifC07_C_Timestamps", VerifC07_C_Timestamps)
}

// c07SetBits overwrites width bits of buf starting at bit position pos with
// the concrete value v (most significant bit first); bits beyond the buffer
// are ignored.
func c07SetBits(buf []byte, pos, width uint, v uint64) {
	for j := uint(0); j < width; j++ {
		p := pos + j
		if int(p/8) >= len(buf) {
			return
		}
		bit := byte(v>>(width-1-j)) & 1
		mask := byte(1) << (7 - p%8)
		buf[p/8] = buf[p/8]&^mask | bit<<(7-p%8)
	}
}

func c07DecodeAndDisplay(frame []byte, level slog.Level) {
	c07Decode(frame, level, true)
}

func c07Decode(frame []byte, level slog.Level, display bool) {
	h := New(verifTimeOf(vfTuesdayNoon), level)
	m, _ := h.GetMessage(frame)
	verifWitness("returned")
	if m == nil {
		return
	}
	Analyse(m)
	verifWitness("analysed")
	if !display {
		return
	}
	_ = m.String()
	// and at the other level, decoding afresh
	other := slog.LevelDebug
	if level == slog.LevelDebug {
		other = slog.LevelInfo
	}
	c := m.Copy()
	c.LogLevel = other
	c.Readable = nil
	_ = c.String()
}

func c07Level() slog.Level {
	if verifParam("debug", 0, 1) == 1 {
		return slog.LevelDebug
	}
	return slog.LevelInfo
}

// 1005 needs 19 payload bytes, 1006 needs 21; lengths 2..24 cover every
// truncation and some trailing bytes.
func VerifC07_B1_BasePosition() {
	verifOwnPanics()
	t := uint64(1005 + verifParam("t1006", 0, 1))
	n := verifParam("len", 2, 24)
	level := c07Level()
	p := verifBytes("p", n)
	c07SetBits(p, 0, 12, t)
	verifWitness("reached")
	c07DecodeAndDisplay(vfFrame(p), level)
}

type c07Shape struct {
	nsat, nsig int
	symCells   bool // cell mask symbolic (else all ones)
}

func c07Masks(nsat, nsig, place int) (uint64, uint64) {
	var satMask, sigMask uint64
	for _, id := range c04IDs(nsat, 64, place) {
		satMask |= 1 << (64 - id)
	}
	for _, id := range c04IDs(nsig, 32, place) {
		sigMask |= 1 << (32 - id)
	}
	return satMask, sigMask
}

// c07FullBits: the size in bits of a complete message of this shape with
// every cell present.
func c07FullBits(msm7 bool, nsat, nsig int) int {
	cells := nsat * nsig
	if msm7 {
		return 169 + cells + nsat*36 + cells*80
	}
	return 169 + cells + nsat*18 + cells*48
}

func c07MSMFrame(msgType uint64, nsat, nsig, place int, symCells bool, n int) []byte {
	p := verifBytes("p", n)
	c07SetBits(p, 0, 12, msgType)
	satMask, sigMask := c07Masks(nsat, nsig, place)
	c07SetBits(p, 73, 64, satMask)
	c07SetBits(p, 137, 32, sigMask)
	if !symCells {
		cells := uint(nsat * nsig)
		for k := uint(0); k < cells; k++ {
			c07SetBits(p, 169+k, 1, 1)
		}
	}
	return vfFrame(p)
}

// Small shapes, every payload length from 1 byte to two bytes past the
// complete message; the cell mask is symbolic.
func VerifC07_B2_MSM() {
	verifOwnPanics()
	shapes := []c07Shape{{0, 0, true}, {1, 1, true}, {2, 1, true}, {1, 2, true}}
	if verifTier() > 0 {
		// (with {3,2} and {1,4} as well the 400 000-path budget is exceeded)
		shapes = append(shapes, c07Shape{2, 2, true}, c07Shape{3, 1, true})
	}
	sh := shapes[verifParam("shape", 0, len(shapes)-1)]
	msm7 := verifParam("msm7", 0, 1) == 1
	types4 := []uint64{1074, 1084, 1094, 1124}
	types7 := []uint64{1077, 1087, 1097, 1127}
	ti := 0
	if verifTier() > 0 {
		ti = verifParam("type", 0, 1) // GPS and GLONASS (all four take over 50 minutes)
	}
	t := types4[ti]
	if msm7 {
		t = types7[ti]
	}
	full := (c07FullBits(msm7, sh.nsat, sh.nsig) + 7) / 8
	n := verifParam("len", 1, full+2)
	level := c07Level()
	frame := c07MSMFrame(t, sh.nsat, sh.nsig, 2, sh.symCells, n)
	verifWitness("reached")
	c07DecodeAndDisplay(frame, level)
}

// Shapes that announce more than fits: more than 64 cells, many satellites
// in a short frame, many cells in a short frame.  Cell mask all ones.
func VerifC07_B3_MSMOverflow() {
	verifOwnPanics()
	shapes := []c07Shape{{9, 8, false}, {64, 32, false}, {64, 1, false}, {2, 32, false}, {8, 8, false}, {16, 4, false}, {2, 4, false}}
	sh := shapes[verifParam("shape", 0, len(shapes)-1)]
	msm7 := verifParam("msm7", 0, 1) == 1
	t := uint64(1074)
	if msm7 {
		t = 1077
	}
	// up to 41 bytes the decoded message is also displayed; longer frames
	// (where many cells fit and each displayed cell forks on its invalid
	// markers) are decoded only -- display of arbitrary cell values is
	// covered on the small shapes of B2
	lens := []int{22, 23, 30, 31, 39, 40, 41, 56, 69, 80, 120}
	if verifTier() > 0 {
		lens = append(lens, 24, 25, 26, 27, 28, 29, 35, 48, 60, 100, 255, 256, 400, 1023)
	}
	n := lens[verifParam("len", 0, len(lens)-1)]
	level := c07Level()
	frame := c07MSMFrame(t, sh.nsat, sh.nsig, verifParam("place", 0, 1)*2, false, n)
	verifWitness("reached")
	c07Decode(frame, level, n <= 41)
}

// (c) every 30-bit timestamp (symbolic) in a header-only frame of each of the
// fourteen MSM types, at both log levels: the time conversion, the rollover
// logic and the debug breakdown of the timestamp.
func VerifC07_C_Timestamps() {
	verifOwnPanics()
	types := []uint64{1074, 1084, 1094, 1104, 1114, 1124, 1134, 1077, 1087, 1097, 1107, 1117, 1127, 1137}
	t := types[verifParam("type", 0, len(types)-1)]
	level := c07Level()
	ts := uint64(verifU32("ts"))
	verifAssume(ts < 1<<30)
	var b vfBits
	b.put(12, t)
	b.put(12, 5)
	b.put(30, ts)
	b.put(1+3+7+2+2+1+3, 0)
	b.put(64, 0)
	b.put(32, 0)
	for b.n%8 != 0 {
		b.put(1, 0)
	}
	frame := vfFrame(b.buf)
	verifWitness("reached")
	h := New(verifTimeOf(vfTuesdayNoon), level)
	// twice: the second conversion starts from the state the first left
	for i := 0; i < 2; i++ {
		m, _ := h.GetMessage(frame)
		if m != nil {
			Analyse(m)
			_ = m.String()
		}
	}
	verifWitness("returned")
}

// D: sequences.  A crash that needs two frames: a well-formed MSM message is
// decoded and displayed first, then a second one of another shape (C04's
// pairs: same cell-mask value, same number of mask bits or same shape) with
// symbolic field values goes through the SAME process state and is decoded
// and displayed at both log levels.  Each frame alone is covered by B2/B3;
// this adds what the first may leave behind for the second (a cache, a reused
// buffer).
func VerifC07_D_Successive() {
	verifOwnPanics()
	pr := c04Pairs[verifParam("pair", 0, len(c04Pairs)-1)]
	kinds := [][2]bool{{false, false}, {true, true}, {false, true}, {true, false}}[verifParam("kinds", 0, 3)]
	types := func(msm7 bool) int {
		if msm7 {
			return 1077
		}
		return 1074
	}
	level := c07Level()
	before := c04Concrete(kinds[0], types(kinds[0]), c04IDs(pr[0], 64, 0), c04IDs(pr[1], 32, 0), uint64(pr[2]))
	c07DecodeAndDisplay(c04Encode(before, 0), level)
	// quick: the second message has fixed field values too (the shapes are
	// what a crash of this kind depends on); thorough: symbolic field values
	var m *c04Msg
	if verifTier() > 0 {
		m = c04Symbolic(kinds[1], types(kinds[1]), c04IDs(pr[3], 64, 0), c04IDs(pr[4], 32, 0), uint64(pr[5]))
		if len(m.sigs) == 0 {
			verifAssume(!m.mm)
		}
	} else {
		m = c04Concrete(kinds[1], types(kinds[1]), c04IDs(pr[3], 64, 0), c04IDs(pr[4], 32, 0), uint64(pr[5]))
	}
	verifWitness("reached")
	c07DecodeAndDisplay(c04Encode(m, 0), level)
}
