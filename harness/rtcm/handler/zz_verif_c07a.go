//go:build verifharness

package handler

// C07 (a) — no input can crash or hang framing: the C01/C02 harnesses over
// arbitrary buffers and streams, with every Go safety condition (index,
// slice bounds, nil dereference, division, failed type assertion, close of a
// closed channel) and every deadlock owned by this property.

import (
	"log/slog"

	"github.com/goblimey/go-ntrip/rtcm/pushback"
)

func init() {
	verifRegister("VerifC07_A1_GetMessage", VerifC07_A1_GetMessage)
	verifRegister("VerifC07_A2_StreamStep", VerifC07_A2_StreamStep)
	verifRegister("VerifC07_A3_Stream", VerifC07_A3_Stream)
}

// c07Known tags the inputs of the recorded findings (known_findings.json):
// only findings whose status is "open" suppress anything.
func c07KnownShortMSM(frame []byte) {
	if len(frame) >= 5 {
		t := first12PayloadBits(frame)
		l := int(frame[1]&3)<<8 | int(frame[2])
		verifKnownIf("C07-F1", verifAnd(verifOr(c20IsMSM4(t), c20IsMSM7(t)), l < 7))
	}
}

func c07Display(m *Message) {
	if m == nil {
		return
	}
	// display at the level the handler gave the message, and at the other
	_ = m.String()
	c := m.Copy()
	c.LogLevel = slog.LevelDebug
	_ = c.String()
}

func VerifC07_A1_GetMessage() {
	verifOwnPanics()
	maxN := 14
	if verifTier() > 0 {
		maxN = 24 // (40 as in C01 does not finish in 50 minutes with the display added)
	}
	n := verifParam("n", 0, maxN)
	buf := verifBytes("buf", n)
	c07KnownShortMSM(buf)
	verifWitness("reached")
	h := New(verifTimeOf(vfTuesdayNoon), slog.LevelInfo)
	m, _ := h.GetMessage(buf)
	verifWitness("returned")
	c07Display(m)
}

func VerifC07_A2_StreamStep() {
	verifOwnPanics()
	maxR := 10
	if verifTier() > 0 {
		maxR = 16
	}
	r := verifParam("r", 0, maxR)
	pushed := verifParam("pushed", 0, 1)
	rest := verifBytes("in", r)
	pb := pushback.New(c01Source(rest))
	var all []byte
	if pushed == 1 {
		pb.PushBack(0xd3)
		all = append(all, 0xd3)
	}
	all = append(all, rest...)
	c07KnownShortMSM(all)
	verifWitness("reached")
	h := New(verifTimeOf(vfTuesdayNoon), slog.LevelDebug)
	m, _ := h.FetchNextMessageFrame(pb)
	verifWitness("returned")
	c07Display(m)
}

func VerifC07_A3_Stream() {
	verifOwnPanics()
	maxN := 7
	if verifTier() > 0 {
		maxN = 10
	}
	n := verifParam("n", 0, maxN)
	in := verifBytes("in", n)
	// the known short-MSM frame can start at any offset of the stream
	for i := 0; i+5 <= n; i++ {
		if i == 0 {
			c07KnownShortMSM(in)
		} else {
			c07KnownShortMSM(in[i:])
		}
	}
	out := make(chan Message, n+2)
	verifWitness("reached")
	h := New(verifTimeOf(vfTuesdayNoon), slog.LevelInfo)
	h.HandleMessages(c01Source(in), out)
	ms := c01Drain(out)
	verifWitness("returned")
	for i := range ms {
		c07Display(&ms[i])
	}
}
