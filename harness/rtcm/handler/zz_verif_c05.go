//go:build verifharness

package handler

// C05 — base-position messages 1005/1006 decode exactly and display to 0.1 mm.

import (
	"log/slog"

	"github.com/goblimey/go-ntrip/rtcm/type1005"
	"github.com/goblimey/go-ntrip/rtcm/type1006"
)

func init() {
	verifRegister("VerifC05_Decode1005", VerifC05_Decode1005)
	verifRegister("VerifC05_Decode1006", VerifC05_Decode1006)
	verifRegister("VerifC05_RejectShort", VerifC05_RejectShort)
	verifRegister("VerifC05_RejectWrongType", VerifC05_RejectWrongType)
}

type c05Fields struct {
	station, year, ig1, ig2, ig3, height uint
	x, y, z                              int64
}

func c05Coord(name string) int64 {
	v := int64(verifInt(name))
	verifAssume(v >= -(1 << 37))
	verifAssume(v < 1<<37)
	return v
}

func c05Symbolic() c05Fields {
	var f c05Fields
	f.station = uint(verifU16("station") & 0xfff)
	f.year = uint(verifU8("year") & 0x3f)
	f.ig1 = uint(verifU8("ig1") & 0xf)
	f.ig2 = uint(verifU8("ig2") & 3)
	f.ig3 = uint(verifU8("ig3") & 3)
	f.height = uint(verifU16("height"))
	f.x, f.y, f.z = c05Coord("x"), c05Coord("y"), c05Coord("z")
	return f
}

// c05Encode lays the fields out as the standard's tables for 1005/1006 say.
func c05Encode(msgType uint64, f c05Fields, withHeight bool, trailing []byte) []byte {
	var b vfBits
	b.put(12, msgType)
	b.put(12, uint64(f.station))
	b.put(6, uint64(f.year))
	b.put(4, uint64(f.ig1))
	b.putSigned(38, f.x)
	b.put(2, uint64(f.ig2))
	b.putSigned(38, f.y)
	b.put(2, uint64(f.ig3))
	b.putSigned(38, f.z)
	if withHeight {
		b.put(16, uint64(f.height))
	}
	payload := b.buf // 152 resp. 168 bits: a whole number of bytes
	payload = append(payload, trailing...)
	return vfFrame(payload)
}

func c05Level() slog.Level {
	if verifParam("debug", 0, 1) == 1 {
		return slog.LevelDebug
	}
	return slog.LevelInfo
}

func VerifC05_Decode1005() {
	verifOwnPanics()
	f := c05Symbolic()
	level := c05Level()
	trailing := verifBytes("trailing", verifParam("trailing", 0, 4))
	frame := c05Encode(1005, f, false, trailing)
	verifWitness("reached")
	m, err := type1005.GetMessage(frame, level)
	verifAssert("1005-accepted", verifAnd(err == nil, m != nil))
	if m == nil {
		return
	}
	ok := verifAnd(m.StationID == f.station, m.ITRFRealisationYear == f.year)
	ok = verifAnd(ok, verifAnd(m.Ignored1 == f.ig1, verifAnd(m.Ignored2 == f.ig2, m.Ignored3 == f.ig3)))
	verifAssert("1005-small-fields", ok)
	verifAssert("1005-x", m.AntennaRefX == f.x)
	verifAssert("1005-y", m.AntennaRefY == f.y)
	verifAssert("1005-z", m.AntennaRefZ == f.z)
	verifAssert("1005-display-coordinates", verifShowsDecimals4(m.String(), ", ", []int64{f.x, f.y, f.z}))

	// the same through the handler's dispatch
	h := New(verifTimeOf(vfTuesdayNoon), level)
	hm, herr := h.GetMessage(frame)
	verifAssert("1005-handler-typed", verifAnd(herr == nil, verifAnd(hm != nil, hm.MessageType == 1005)))
	Analyse(hm)
	r, is1005 := hm.Readable.(*type1005.Message)
	verifAssert("1005-handler-decodes", is1005)
	if is1005 {
		verifAssert("1005-handler-fields", verifAnd(r.AntennaRefX == f.x, verifAnd(r.AntennaRefY == f.y, r.AntennaRefZ == f.z)))
		verifAssert("1005-handler-display", verifShowsDecimals4(hm.String(), ", ", []int64{f.x, f.y, f.z}))
	}
}

func VerifC05_Decode1006() {
	verifOwnPanics()
	f := c05Symbolic()
	level := c05Level()
	trailing := verifBytes("trailing", verifParam("trailing", 0, 4))
	frame := c05Encode(1006, f, true, trailing)
	verifWitness("reached")
	m, err := type1006.GetMessage(frame, level)
	verifAssert("1006-accepted", verifAnd(err == nil, m != nil))
	if m == nil {
		return
	}
	ok := verifAnd(m.StationID == f.station, m.ITRFRealisationYear == f.year)
	ok = verifAnd(ok, verifAnd(m.Ignored1 == f.ig1, verifAnd(m.Ignored2 == f.ig2, m.Ignored3 == f.ig3)))
	verifAssert("1006-small-fields", ok)
	verifAssert("1006-x", m.AntennaRefX == f.x)
	verifAssert("1006-y", m.AntennaRefY == f.y)
	verifAssert("1006-z", m.AntennaRefZ == f.z)
	verifAssert("1006-height", m.AntennaHeight == f.height)
	s := m.String()
	verifAssert("1006-display-coordinates", verifShowsDecimals4(s, ", ", []int64{f.x, f.y, f.z}))
	verifAssert("1006-display-height", verifShowsDecimals4(s, "", []int64{int64(f.height)}))

	h := New(verifTimeOf(vfTuesdayNoon), level)
	hm, herr := h.GetMessage(frame)
	verifAssert("1006-handler-typed", verifAnd(herr == nil, verifAnd(hm != nil, hm.MessageType == 1006)))
	Analyse(hm)
	r, is1006 := hm.Readable.(*type1006.Message)
	verifAssert("1006-handler-decodes", is1006)
	if is1006 {
		verifAssert("1006-handler-fields", verifAnd(r.AntennaRefX == f.x, verifAnd(r.AntennaRefY == f.y, verifAnd(r.AntennaRefZ == f.z, r.AntennaHeight == f.height))))
		verifAssert("1006-handler-display", verifShowsDecimals4(hm.String(), ", ", []int64{f.x, f.y, f.z}))
	}
}

// Every payload length below the full length is rejected with an error.
func VerifC05_RejectShort() {
	verifOwnPanics()
	which := verifParam("type", 0, 1)
	full := 19
	msgType := uint64(1005)
	if which == 1 {
		full, msgType = 21, 1006
	}
	n := verifParam("payload", 2, full-1)
	payload := verifBytes("p", n)
	// the type field says 1005 resp. 1006, everything else arbitrary
	payload[0] = byte(msgType >> 4)
	payload[1] = byte(msgType<<4) | payload[1]&0x0f
	frame := vfFrame(payload)
	verifWitness("reached")
	if which == 0 {
		m, err := type1005.GetMessage(frame, slog.LevelInfo)
		verifAssert("1005-short-rejected", verifAnd(err != nil, m == nil))
	} else {
		m, err := type1006.GetMessage(frame, slog.LevelInfo)
		verifAssert("1006-short-rejected", verifAnd(err != nil, m == nil))
	}
	// through the handler: an error text, no decoded message
	h := New(verifTimeOf(vfTuesdayNoon), slog.LevelInfo)
	hm, _ := h.GetMessage(frame)
	Analyse(hm)
	verifAssert("short-handler-error-text", verifAnd(hm.ErrorMessage != "", hm.Readable == nil))
	_ = hm.String()
}

func VerifC05_RejectWrongType() {
	verifOwnPanics()
	which := verifParam("decoder", 0, 1)
	t := uint64(verifU16("type12") & 0xfff)
	payload := verifBytes("p", 21+verifParam("trailing", 0, 2))
	payload[0] = byte(t >> 4)
	payload[1] = byte(t<<4) | payload[1]&0x0f
	frame := vfFrame(payload)
	verifWitness("reached")
	if which == 0 {
		verifAssume(t != 1005)
		m, err := type1005.GetMessage(frame, slog.LevelInfo)
		verifAssert("1005-wrong-type-rejected", verifAnd(err != nil, m == nil))
	} else {
		verifAssume(t != 1006)
		m, err := type1006.GetMessage(frame, slog.LevelInfo)
		verifAssert("1006-wrong-type-rejected", verifAnd(err != nil, m == nil))
	}
}
