//go:build verifharness

package handler

// C20 — message-type classification is total and consistent.

import (
	"log/slog"

	"github.com/goblimey/go-ntrip/rtcm/header"
	msm4Message "github.com/goblimey/go-ntrip/rtcm/type_msm4/message"
	msm7Message "github.com/goblimey/go-ntrip/rtcm/type_msm7/message"
	"github.com/goblimey/go-ntrip/rtcm/utils"
)

func init() {
	verifRegister("VerifC20_Classify", VerifC20_Classify)
	verifRegister("VerifC20_Frame", VerifC20_Frame)
	verifRegister("VerifC20_Sentinels", VerifC20_Sentinels)
}

func c20IsMSM4(t int) bool {
	return verifOr(verifOr(verifOr(t == 1074, t == 1084), verifOr(t == 1094, t == 1104)),
		verifOr(verifOr(t == 1114, t == 1124), t == 1134))
}

func c20IsMSM7(t int) bool {
	return verifOr(verifOr(verifOr(t == 1077, t == 1087), verifOr(t == 1097, t == 1107)),
		verifOr(verifOr(t == 1117, t == 1127), t == 1137))
}

// c20Constellation is the documented table.
func c20Constellation(t int) string {
	switch t {
	case 1074, 1077:
		return "GPS"
	case 1084, 1087:
		return "Glonass"
	case 1094, 1097:
		return "Galileo"
	case 1104, 1107:
		return "SBAS"
	case 1114, 1117:
		return "QZSS"
	case 1124, 1127:
		return "Beidou"
	case 1134, 1137:
		return "NavIC/IRNSS"
	}
	return "unknown constellation"
}

// Every int value (all 2^64), which contains the 4096 types and the
// negative sentinels.
func VerifC20_Classify() {
	verifOwnPanics()
	t := verifInt("type")
	verifWitness("reached")
	verifAssert("msm4-iff-listed", utils.MSM4(t) == c20IsMSM4(t))
	verifAssert("msm7-iff-listed", utils.MSM7(t) == c20IsMSM7(t))
	verifAssert("msm-is-msm4-or-msm7", utils.MSM(t) == verifOr(c20IsMSM4(t), c20IsMSM7(t)))
	verifAssert("constellation-table", utils.GetConstellation(t) == c20Constellation(t))
	tc := utils.GetTitleAndComment(t)
	verifAssert("title-not-nil", tc != nil)
	verifAssert("title-non-empty", tc.Title != "")
}

// c20ZeroMaskFrame: a CRC-valid frame holding an MSM-header-sized payload
// (169 bits -> 22 bytes) with message type t (12 bits) and empty masks.
func c20ZeroMaskFrame(t uint64) []byte {
	var b vfBits
	b.put(12, t)
	b.put(12, 5)    // station
	b.put(30, 1000) // timestamp
	b.put(1+3+7+2+2+1+3, 0)
	b.put(64, 0)
	b.put(32, 0)
	for b.n%8 != 0 {
		b.put(1, 0)
	}
	return vfFrame(b.buf)
}

func VerifC20_Frame() {
	verifOwnPanics()
	t12 := uint64(verifU16("type12"))
	verifAssume(t12 < 4096)
	t := int(t12)
	frame := c20ZeroMaskFrame(t12)
	level := slog.LevelInfo
	if verifParam("debug", 0, 1) == 1 {
		level = slog.LevelDebug
	}
	verifWitness("reached")
	isMSM := verifOr(c20IsMSM4(t), c20IsMSM7(t))

	h := New(verifTimeOf(vfTuesdayNoon), level)
	m, _ := h.GetMessage(frame)
	verifAssert("frame-typed", verifAnd(m != nil, m.MessageType == t))
	verifAssert("timestamp-extracted-iff-msm", (m.SentAt != "") == isMSM)
	verifAssert("start-of-week-iff-msm", (m.StartOfWeek != "") == isMSM)
	verifAssert("timestamp-value-iff-msm", (m.Timestamp == 1000) == isMSM)

	_, _, herr := header.GetMSMHeader(frame, level)
	verifAssert("msm-header-accepted-iff-msm", (herr == nil) == isMSM)
	_, e4 := msm4Message.GetMessage(frame, level)
	verifAssert("msm4-decoder-accepts-iff-msm4", (e4 == nil) == c20IsMSM4(t))
	_, e7 := msm7Message.GetMessage(frame, level)
	verifAssert("msm7-decoder-accepts-iff-msm7", (e7 == nil) == c20IsMSM7(t))

	// Full decoding is attempted for exactly MSM4, MSM7, 1005 and 1006: on
	// this frame (too short for 1005/1006's fields? no: 22 bytes suffice for
	// both) a decoder ran iff Readable is one of the decoder types.
	Analyse(m)
	_, isText := m.Readable.(string)
	decoded := verifAnd(m.Readable != nil, !isText)
	failed := m.ErrorMessage != ""
	attempted := verifOr(decoded, failed)
	verifAssert("full-decode-attempted-iff-decodable", attempted == verifOr(isMSM, verifOr(t == 1005, t == 1006)))

	s := m.String()
	verifAssert("display-non-empty", s != "")
}

func VerifC20_Sentinels() {
	verifOwnPanics()
	level := slog.LevelInfo
	if verifParam("debug", 0, 1) == 1 {
		level = slog.LevelDebug
	}
	data := verifBytes("junk", 3)
	verifWitness("reached")
	m := NewNonRTCM(data)
	m.LogLevel = level
	verifAssert("non-rtcm-sentinel", m.MessageType == utils.NonRTCMMessage)
	verifAssert("non-rtcm-not-msm", !utils.MSM(m.MessageType))
	verifAssert("non-rtcm-displayable", m.String() != "")
	stop := NewMessage(utils.MessageTypeStop, "", data, level)
	verifAssert("stop-not-msm", !utils.MSM(stop.MessageType))
	verifAssert("stop-displayable", stop.String() != "")
	verifAssert("stop-title", utils.GetTitleAndComment(utils.MessageTypeStop).Title != "")
}
