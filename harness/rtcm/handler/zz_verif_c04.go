//go:build verifharness

package handler

// C04 — MSM4/MSM7 messages decode to exactly the encoded header and cell data.
//
// A reference encoder (field-major layout straight from the standard's
// tables) builds a frame from symbolic field values; the real decoder must
// reproduce every field, attach every signal cell to the right satellite and
// signal id, and accept the message, however many zero padding bytes follow.
// Mask *shapes* are concrete per instance; all field *values* are symbolic.

import (
	"log/slog"

	"github.com/goblimey/go-ntrip/rtcm/header"
	msm4Message "github.com/goblimey/go-ntrip/rtcm/type_msm4/message"
	msm7Message "github.com/goblimey/go-ntrip/rtcm/type_msm7/message"
)

func init() {
	verifRegister("VerifC04_Successive", VerifC04_Successive)
	verifRegister("VerifC04_Shapes", VerifC04_Shapes)
	verifRegister("VerifC04_Padding", VerifC04_Padding)
	verifRegister("VerifC04_Types", VerifC04_Types)
	verifRegister("VerifC04_Wide", VerifC04_Wide)
	verifRegister("VerifC04_MaskWindows", VerifC04_MaskWindows)
}

type c04Sat struct {
	id               uint
	whole, ext, frac uint
	rate             int
}

type c04Sig struct {
	sat, sigID            uint // satellite index, signal id
	rng, phase, rateDelta int
	lock, cnr             uint
	half                  bool
}

type c04Msg struct {
	msm7                              bool
	msgType                           int
	station, timestamp                uint
	mm                                bool
	iods, sess, clk, ext, smoothIntvl uint
	smooth                            bool
	satIDs, sigIDs                    []uint
	cells                             [][]bool
	sats                              []c04Sat
	sigs                              []c04Sig
}

func c04SignedField(name string, bits uint) int {
	v := verifInt(name)
	lim := 1 << (bits - 1)
	verifAssume(v >= -lim)
	verifAssume(v < lim)
	return v
}

func c04UField(name string, bits uint) uint {
	v := verifUint(name)
	verifAssume(v < 1<<bits)
	return v
}

func c04Name(prefix string, i int) string {
	return prefix + string(rune('a'+i))
}

// c04IDs places n ids among 1..max: first, last or scattered.
func c04IDs(n int, max uint, place int) []uint {
	ids := make([]uint, 0, n)
	for i := 0; i < n; i++ {
		switch place {
		case 0:
			ids = append(ids, uint(i+1))
		case 1:
			ids = append(ids, max-uint(n)+uint(i)+1)
		default:
			// spread over the range, including both ends when n > 1
			if n == 1 {
				ids = append(ids, max/2+1)
			} else {
				ids = append(ids, 1+uint(i)*(max-1)/uint(n-1))
			}
		}
	}
	return ids
}

// c04Symbolic fills a message of the given shape with symbolic field values.
// cellMask bit k (row-major, first cell = most significant of the used bits)
// says whether satellite k/nsig sent signal k%nsig.
func c04Symbolic(msm7 bool, msgType int, satIDs, sigIDs []uint, cellMask uint64) *c04Msg {
	m := &c04Msg{msm7: msm7, msgType: msgType, satIDs: satIDs, sigIDs: sigIDs}
	m.station = c04UField("station", 12)
	m.timestamp = c04UField("timestamp", 30)
	m.mm = verifBool("mm")
	m.iods = c04UField("iods", 3)
	m.sess = c04UField("sess", 7)
	m.clk = c04UField("clk", 2)
	m.ext = c04UField("extclk", 2)
	m.smooth = verifBool("smooth")
	m.smoothIntvl = c04UField("smoothint", 3)
	nsat, nsig := len(satIDs), len(sigIDs)
	for i := 0; i < nsat; i++ {
		s := c04Sat{id: satIDs[i]}
		s.whole = c04UField(c04Name("whole", i), 8)
		s.frac = c04UField(c04Name("frac", i), 10)
		if msm7 {
			s.ext = c04UField(c04Name("ext", i), 4)
			s.rate = c04SignedField(c04Name("rate", i), 14)
		}
		m.sats = append(m.sats, s)
	}
	k := nsat*nsig - 1
	c := 0
	for i := 0; i < nsat; i++ {
		row := make([]bool, nsig)
		for j := 0; j < nsig; j++ {
			row[j] = (cellMask>>uint(k))&1 == 1
			k--
			if row[j] {
				var g c04Sig
				g.sat, g.sigID = uint(i), sigIDs[j]
				if msm7 {
					g.rng = c04SignedField(c04Name("rng", c), 20)
					g.phase = c04SignedField(c04Name("ph", c), 24)
					g.lock = c04UField(c04Name("lock", c), 10)
					g.cnr = c04UField(c04Name("cnr", c), 10)
					g.rateDelta = c04SignedField(c04Name("rd", c), 15)
				} else {
					g.rng = c04SignedField(c04Name("rng", c), 15)
					g.phase = c04SignedField(c04Name("ph", c), 22)
					g.lock = c04UField(c04Name("lock", c), 4)
					g.cnr = c04UField(c04Name("cnr", c), 6)
				}
				g.half = verifBool(c04Name("half", c))
				m.sigs = append(m.sigs, g)
				c++
			}
		}
		m.cells = append(m.cells, row)
	}
	return m
}

// c04Encode: the standard's layout.  Header, satellite data field by field,
// signal data field by field, zero bits to the byte boundary, then pad zero
// bytes.
func c04Encode(m *c04Msg, pad int) []byte {
	var b vfBits
	b.put(12, uint64(m.msgType))
	b.put(12, uint64(m.station))
	b.put(30, uint64(m.timestamp))
	b.putBool(m.mm)
	b.put(3, uint64(m.iods))
	b.put(7, uint64(m.sess))
	b.put(2, uint64(m.clk))
	b.put(2, uint64(m.ext))
	b.putBool(m.smooth)
	b.put(3, uint64(m.smoothIntvl))
	var satMask uint64
	for _, id := range m.satIDs {
		satMask |= 1 << (64 - id)
	}
	b.put(64, satMask)
	var sigMask uint64
	for _, id := range m.sigIDs {
		sigMask |= 1 << (32 - id)
	}
	b.put(32, sigMask)
	for i := range m.cells {
		for j := range m.cells[i] {
			b.putBool(m.cells[i][j])
		}
	}
	for _, s := range m.sats {
		b.put(8, uint64(s.whole))
	}
	if m.msm7 {
		for _, s := range m.sats {
			b.put(4, uint64(s.ext))
		}
	}
	for _, s := range m.sats {
		b.put(10, uint64(s.frac))
	}
	if m.msm7 {
		for _, s := range m.sats {
			b.putSigned(14, int64(s.rate))
		}
	}
	wr, wp, wl, wc := uint(15), uint(22), uint(4), uint(6)
	if m.msm7 {
		wr, wp, wl, wc = 20, 24, 10, 10
	}
	for _, g := range m.sigs {
		b.putSigned(wr, int64(g.rng))
	}
	for _, g := range m.sigs {
		b.putSigned(wp, int64(g.phase))
	}
	for _, g := range m.sigs {
		b.put(wl, uint64(g.lock))
	}
	for _, g := range m.sigs {
		b.putBool(g.half)
	}
	for _, g := range m.sigs {
		b.put(wc, uint64(g.cnr))
	}
	if m.msm7 {
		for _, g := range m.sigs {
			b.putSigned(15, int64(g.rateDelta))
		}
	}
	for b.n%8 != 0 {
		b.put(1, 0)
	}
	return vfFrame(vfPad(b.buf, pad))
}

func c04CheckHeader(m *c04Msg, gotType int, station, ts uint, mm bool, iods, sess, clk, ext uint, smooth bool, si uint,
	satMask uint64, sigMask uint32, sats, sigs []uint, cells [][]bool, nCells int, constellation string) {
	ok := verifAnd(gotType == m.msgType, verifAnd(station == m.station, ts == m.timestamp))
	ok = verifAnd(ok, verifAnd(mm == m.mm, verifAnd(iods == m.iods, sess == m.sess)))
	ok = verifAnd(ok, verifAnd(clk == m.clk, verifAnd(ext == m.ext, verifAnd(smooth == m.smooth, si == m.smoothIntvl))))
	verifAssert("header-fields", ok)
	var wantSat uint64
	for _, id := range m.satIDs {
		wantSat |= 1 << (64 - id)
	}
	var wantSig uint32
	for _, id := range m.sigIDs {
		wantSig |= 1 << (32 - id)
	}
	verifAssert("header-masks", verifAnd(satMask == wantSat, sigMask == wantSig))
	lists := len(sats) == len(m.satIDs) && len(sigs) == len(m.sigIDs) && len(cells) == len(m.cells)
	if lists {
		for i := range sats {
			lists = lists && sats[i] == m.satIDs[i]
		}
		for i := range sigs {
			lists = lists && sigs[i] == m.sigIDs[i]
		}
		for i := range cells {
			lists = lists && len(cells[i]) == len(m.cells[i])
			if lists {
				for j := range cells[i] {
					lists = lists && cells[i][j] == m.cells[i][j]
				}
			}
		}
	}
	verifAssert("header-satellite-signal-cell-lists", lists)
	verifAssert("header-number-of-signal-cells", nCells == len(m.sigs))
	verifAssert("header-constellation", constellation == c20Constellation(m.msgType))
}

func c04Decode(m *c04Msg, frame []byte) {
	if m.msm7 {
		got, err := msm7Message.GetMessage(frame, slog.LevelInfo)
		verifAssert("well-formed-message-accepted", verifAnd(err == nil, got != nil))
		if got == nil {
			return
		}
		h := got.Header
		c04CheckHeader(m, h.MessageType, h.StationID, h.Timestamp, h.MultipleMessage, h.IssueOfDataStation,
			h.SessionTransmissionTime, h.ClockSteeringIndicator, h.ExternalClockSteeringIndicator,
			h.GNSSDivergenceFreeSmoothingIndicator, h.GNSSSmoothingInterval, h.SatelliteMask, h.SignalMask,
			h.Satellites, h.Signals, h.Cells, h.NumSignalCells, h.Constellation)
		verifAssert("satellite-cell-count", len(got.Satellites) == len(m.sats))
		if len(got.Satellites) != len(m.sats) {
			return
		}
		ok := true
		for i, s := range m.sats {
			g := got.Satellites[i]
			ok = verifAnd(ok, verifAnd(g.ID == s.id, verifAnd(g.RangeWholeMillis == s.whole, g.RangeFractionalMillis == s.frac)))
			ok = verifAnd(ok, verifAnd(g.ExtendedInfo == s.ext, g.PhaseRangeRate == s.rate))
		}
		verifAssert("satellite-cells", ok)
		verifAssert("signal-rows", len(got.Signals) == len(m.sats))
		if len(got.Signals) != len(m.sats) {
			return
		}
		c := 0
		shape := true
		vals := true
		for i := range m.sats {
			n := 0
			for _, g := range m.sigs {
				if int(g.sat) == i {
					n++
				}
			}
			if len(got.Signals[i]) != n {
				shape = false
				break
			}
			for k := 0; k < n; k++ {
				w := m.sigs[c]
				g := got.Signals[i][k]
				shape = shape && g.Satellite == &got.Satellites[i]
				vals = verifAnd(vals, verifAnd(g.ID == w.sigID, verifAnd(g.RangeDelta == w.rng, g.PhaseRangeDelta == w.phase)))
				vals = verifAnd(vals, verifAnd(g.LockTimeIndicator == w.lock, verifAnd(g.HalfCycleAmbiguity == w.half, g.CarrierToNoiseRatio == w.cnr)))
				vals = verifAnd(vals, g.PhaseRangeRateDelta == w.rateDelta)
				c++
			}
		}
		verifAssert("signal-cells-attached-to-their-satellites", shape)
		if shape {
			verifAssert("signal-cell-fields", vals)
		}
		return
	}
	got, err := msm4Message.GetMessage(frame, slog.LevelInfo)
	verifAssert("well-formed-message-accepted", verifAnd(err == nil, got != nil))
	if got == nil {
		return
	}
	h := got.Header
	c04CheckHeader(m, h.MessageType, h.StationID, h.Timestamp, h.MultipleMessage, h.IssueOfDataStation,
		h.SessionTransmissionTime, h.ClockSteeringIndicator, h.ExternalClockSteeringIndicator,
		h.GNSSDivergenceFreeSmoothingIndicator, h.GNSSSmoothingInterval, h.SatelliteMask, h.SignalMask,
		h.Satellites, h.Signals, h.Cells, h.NumSignalCells, h.Constellation)
	verifAssert("satellite-cell-count", len(got.Satellites) == len(m.sats))
	if len(got.Satellites) != len(m.sats) {
		return
	}
	ok := true
	for i, s := range m.sats {
		g := got.Satellites[i]
		ok = verifAnd(ok, verifAnd(g.ID == s.id, verifAnd(g.RangeWholeMillis == s.whole, g.RangeFractionalMillis == s.frac)))
	}
	verifAssert("satellite-cells", ok)
	verifAssert("signal-rows", len(got.Signals) == len(m.sats))
	if len(got.Signals) != len(m.sats) {
		return
	}
	c := 0
	shape := true
	vals := true
	for i := range m.sats {
		n := 0
		for _, g := range m.sigs {
			if int(g.sat) == i {
				n++
			}
		}
		if len(got.Signals[i]) != n {
			shape = false
			break
		}
		for k := 0; k < n; k++ {
			w := m.sigs[c]
			g := got.Signals[i][k]
			shape = shape && g.Satellite == &got.Satellites[i]
			vals = verifAnd(vals, verifAnd(g.ID == w.sigID, verifAnd(g.RangeDelta == w.rng, g.PhaseRangeDelta == w.phase)))
			vals = verifAnd(vals, verifAnd(g.LockTimeIndicator == w.lock, verifAnd(g.HalfCycleAmbiguity == w.half, g.CarrierToNoiseRatio == w.cnr)))
			c++
		}
	}
	verifAssert("signal-cells-attached-to-their-satellites", shape)
	if shape {
		verifAssert("signal-cell-fields", vals)
	}
}

// c04Run builds, encodes and decodes one instance.
func c04Run(msm7 bool, msgType int, satIDs, sigIDs []uint, cellMask uint64, pad int) {
	m := c04Symbolic(msm7, msgType, satIDs, sigIDs, cellMask)
	if len(m.sigs) == 0 {
		// a message without any signal cell is considered only with the flag clear
		verifAssume(!m.mm)
	}
	frame := c04Encode(m, pad)
	if len(frame) > 1023+6 {
		verifAssume(false)
	}
	verifWitness("reached")
	c04Decode(m, frame)
}

var c04ShapesQuick = [][2]int{{0, 0}, {1, 0}, {0, 1}, {1, 1}, {2, 1}, {1, 2}, {2, 2}, {3, 2}}

// All cell masks of every small shape, three placements of the mask bits.
func VerifC04_Shapes() {
	verifOwnPanics()
	sh := c04ShapesQuick[verifParam("shape", 0, len(c04ShapesQuick)-1)]
	nsat, nsig := sh[0], sh[1]
	place := verifParam("place", 0, 2)
	msm7 := verifParam("msm7", 0, 1) == 1
	msgType := 1074
	if msm7 {
		msgType = 1077
	}
	cellMask := uint64(verifParam("cellmask", 0, (1<<uint(nsat*nsig))-1))
	pad := verifParam("pad", 0, 1)
	c04Run(msm7, msgType, c04IDs(nsat, 64, place), c04IDs(nsig, 32, place), cellMask, pad)
}

// Padding: 0..10 zero bytes (thorough 0..24) after the signal data.
func VerifC04_Padding() {
	verifOwnPanics()
	shapes := []struct {
		nsat, nsig int
		mask       uint64
	}{{1, 1, 1}, {2, 2, 0xf}, {3, 2, 0x29}, {2, 2, 0x6}}
	sh := shapes[verifParam("shape", 0, len(shapes)-1)]
	msm7 := verifParam("msm7", 0, 1) == 1
	msgType := 1084
	if msm7 {
		msgType = 1087
	}
	maxPad := 10
	if verifTier() > 0 {
		maxPad = 24
	}
	pad := verifParam("pad", 0, maxPad)
	c04Run(msm7, msgType, c04IDs(sh.nsat, 64, 2), c04IDs(sh.nsig, 32, 2), sh.mask, pad)
}

// All fourteen message types.
func VerifC04_Types() {
	verifOwnPanics()
	types := []int{1074, 1084, 1094, 1104, 1114, 1124, 1134, 1077, 1087, 1097, 1107, 1117, 1127, 1137}
	t := types[verifParam("type", 0, len(types)-1)]
	msm7 := t%10 == 7
	full := verifParam("shape", 0, 1)
	if full == 0 {
		c04Run(msm7, t, c04IDs(1, 64, 2), c04IDs(1, 32, 2), 1, 0)
	} else {
		c04Run(msm7, t, c04IDs(2, 64, 0), c04IDs(2, 32, 1), 0xf, 0)
	}
}

// Wide shapes (thorough): many satellites or signals, sparse and full cell
// masks, up to the 64-cell limit.
func VerifC04_Wide() {
	verifOwnPanics()
	shapes := []struct {
		nsat, nsig int
		mask       uint64
	}{
		{8, 8, 0x8040201008040201}, {5, 7, 0x7ffffffff}, {4, 16, 0x8000400020001000}, {16, 4, 0x8421842184218421},
		{5, 12, 0x0800000000000801}, {64, 1, 0x8000000000000001}, {2, 32, 0x8000000100000001},
		{8, 8, 0xffffffffffffffff}, {6, 2, 0xfff},
	}
	n := 1
	if verifTier() > 0 {
		n = len(shapes) - 1
	}
	sh := shapes[verifParam("shape", 0, n)]
	msm7 := verifParam("msm7", 0, 1) == 1
	msgType := 1124
	if msm7 {
		msgType = 1127
	}
	pad := verifParam("pad", 0, 1) * 4
	c04Run(msm7, msgType, c04IDs(sh.nsat, 64, 2), c04IDs(sh.nsig, 32, 2), sh.mask, pad)
}

// c04Concrete: a message of the given shape with fixed field values.
func c04Concrete(msm7 bool, msgType int, satIDs, sigIDs []uint, cellMask uint64) *c04Msg {
	m := &c04Msg{msm7: msm7, msgType: msgType, satIDs: satIDs, sigIDs: sigIDs, station: 7, timestamp: 1000,
		mm: false, iods: 5, sess: 3, clk: 1, ext: 2, smooth: true, smoothIntvl: 6}
	nsat, nsig := len(satIDs), len(sigIDs)
	for i := 0; i < nsat; i++ {
		m.sats = append(m.sats, c04Sat{id: satIDs[i], whole: uint(80 + i), frac: uint(5 + i), ext: 9, rate: -7})
	}
	k := nsat*nsig - 1
	for i := 0; i < nsat; i++ {
		row := make([]bool, nsig)
		for j := 0; j < nsig; j++ {
			row[j] = (cellMask>>uint(k))&1 == 1
			k--
			if row[j] {
				m.sigs = append(m.sigs, c04Sig{sat: uint(i), sigID: sigIDs[j], rng: 3 + i, phase: -2 - j, lock: 1, cnr: 2, half: true, rateDelta: -5})
			}
		}
		m.cells = append(m.cells, row)
	}
	return m
}

// A message decodes the same whatever was decoded before it.  A predecessor
// with fixed field values is decoded first, then the subject with symbolic
// field values; the pairs share the number of mask bits, the cell-mask value
// or the shape, which is what a cache or a reused buffer between two
// messages would key on.
var c04Pairs = [][6]int{
	// predecessor nsat, nsig, cell mask; subject nsat, nsig, cell mask
	{2, 4, 0xcc, 4, 2, 0xcc},
	{4, 2, 0xcc, 2, 4, 0xcc},
	{4, 1, 0xf, 2, 2, 0xf},
	{2, 2, 0xf, 4, 1, 0xf},
	{1, 4, 0xf, 2, 2, 0xf},
	{2, 2, 0xf, 2, 2, 0x9},
	{2, 2, 0x9, 2, 2, 0xf},
	{3, 2, 0x2d, 2, 3, 0x2d},
	{2, 2, 0x6, 2, 2, 0x6},
	{2, 0, 0, 0, 0, 0},
	{3, 2, 0x3f, 1, 1, 0x1},
}

func VerifC04_Successive() {
	verifOwnPanics()
	pr := c04Pairs[verifParam("pair", 0, len(c04Pairs)-1)]
	// the two messages are of the same kind or MSM4 before MSM7 and the reverse
	kinds := [][2]bool{{false, false}, {true, true}, {false, true}, {true, false}}[verifParam("kinds", 0, 3)]
	types := func(msm7 bool) int {
		if msm7 {
			return 1097
		}
		return 1094
	}
	before := c04Concrete(kinds[0], types(kinds[0]), c04IDs(pr[0], 64, 0), c04IDs(pr[1], 32, 0), uint64(pr[2]))
	bf := c04Encode(before, 0)
	if before.msm7 {
		_, _ = msm7Message.GetMessage(bf, slog.LevelInfo)
	} else {
		_, _ = msm4Message.GetMessage(bf, slog.LevelInfo)
	}
	c04Run(kinds[1], types(kinds[1]), c04IDs(pr[3], 64, 0), c04IDs(pr[4], 32, 0), uint64(pr[5]), 0)
}

// Mask expansion on its own, for masks outside the shape family: eight
// SYMBOLIC mask bits in a window at a chosen position of the 64-bit
// satellite mask (or the 32-bit signal mask), the other mask a single bit,
// every cell present.  The header decoder must list exactly the ids whose
// bits are set, in ascending order, build one cell row per satellite and
// count the cells.
func VerifC04_MaskWindows() {
	verifOwnPanics()
	sig := verifParam("signal-mask", 0, 1) == 1
	var positions []int
	if sig {
		positions = []int{0, 12, 24}
		if verifTier() > 0 {
			positions = nil
			for p := 0; p <= 24; p++ {
				positions = append(positions, p)
			}
		}
	} else {
		positions = []int{0, 28, 56}
		if verifTier() > 0 {
			positions = nil
			for p := 0; p <= 56; p++ {
				positions = append(positions, p)
			}
		}
	}
	pos := positions[verifParam("window", 0, len(positions)-1)]
	b := uint64(verifU8("bits"))
	var satMask, sigMask uint64
	if sig {
		sigMask = b << uint(24-pos)
		satMask = 1 << (64 - 7)
	} else {
		satMask = b << uint(56-pos)
		sigMask = 1 << (32 - 3)
	}
	var e vfBits
	e.put(12, 1077)
	e.put(12, 9)
	e.put(30, 1000)
	e.put(1+3+7+2+2+1+3, 0)
	e.put(64, satMask)
	e.put(32, sigMask)
	e.put(8, 0xff) // the cell mask: every announced cell present (at most 8)
	for e.n < 8*60 {
		e.put(8, 0)
	}
	frame := vfFrame(e.buf)
	// the oracle: ids of the set bits, most significant bit = lowest id
	var want []uint
	for j := 0; j < 8; j++ {
		if b>>(7-uint(j))&1 == 1 {
			want = append(want, uint(pos+1+j))
		}
	}
	verifWitness("reached")
	h, _, err := header.GetMSMHeader(frame, slog.LevelInfo)
	verifAssert("mask-window-accepted", verifAnd(err == nil, h != nil))
	if h == nil {
		return
	}
	got, other := h.Satellites, h.Signals
	if sig {
		got, other = h.Signals, h.Satellites
	}
	verifAssert("mask-window-other-list", len(other) == 1)
	verifAssert("mask-window-id-count", len(got) == len(want))
	if len(got) != len(want) {
		return
	}
	ok := true
	for i := range want {
		ok = verifAnd(ok, got[i] == want[i])
	}
	verifAssert("mask-window-ids-ascending", ok)
	verifAssert("mask-window-cell-count", h.NumSignalCells == len(want))
	rows := len(h.Cells) == len(h.Satellites)
	if rows {
		for i := range h.Cells {
			rows = rows && len(h.Cells[i]) == len(h.Signals)
			if rows {
				for j := range h.Cells[i] {
					rows = rows && h.Cells[i][j]
				}
			}
		}
	}
	verifAssert("mask-window-cell-rows", rows)
}
