//go:build verifharness

package handler

// C06 — MSM timestamps are converted to the true UTC time across week
//       rollovers, for any interleaving of the four constellations.
// C17 — any start time within the week of the first observation gives
//       correct times (same machinery, precondition "before, at or after T").
//
// The harness goes through the public frame interface: every timestamp is
// packed into a CRC-valid MSM frame and given to Handler.GetMessage.  The
// TRUE observation instant is defined from (week number, timestamp) with the
// reference arithmetic of the property text; the reported SentAt and
// StartOfWeek must name exactly that instant and that week start.
//
// All instants are nanoseconds relative to a concrete reference Sunday
// (2023-02-12 00:00:00 UTC); the start time and every timestamp are symbolic.

import (
	"log/slog"

	"github.com/goblimey/go-ntrip/rtcm/utils"
)

func init() {
	verifRegister("VerifC06_History", VerifC06_History)
	verifRegister("VerifC06_Illegal", VerifC06_Illegal)
	verifRegister("VerifC06_InductiveStep", VerifC06_InductiveStep)
	verifRegister("VerifC17_StartAnywhereInWeek", VerifC17_StartAnywhereInWeek)
}

const (
	c06Feb      int64 = 1676160000 * 1000000000 // Sunday 2023-02-12 00:00:00 UTC
	c06NewYear  int64 = 1703376000 * 1000000000 // Sunday 2023-12-24 00:00:00 UTC
	c06In2013   int64 = 1370736000 * 1000000000 // Sunday 2013-06-09 00:00:00 UTC (Moscow civil time was UTC+4 then)
	c06Ms       int64 = 1000000
	c06Sec      int64 = 1000 * c06Ms
	c06Day      int64 = 86400 * c06Sec
	c06Week     int64 = 7 * c06Day
	c06MsInDay  int64 = 86400000
	c06MsInWeek int64 = 7 * c06MsInDay
)

// c06S0 is the reference Sunday of the run: an ordinary week (February) or
// the weeks around New Year, where a week straddles the month and the year.
var c06S0 = c06Feb

// constellations
const (
	c06GPS = iota
	c06Galileo
	c06Glonass
	c06Beidou
)

var c06Names = []string{"GPS", "Galileo", "Glonass", "Beidou"}
var c06Types = [][2]uint64{{1074, 1077}, {1094, 1097}, {1084, 1087}, {1124, 1127}}

// c06WeekOffset: when the constellation's week starts, relative to Sunday
// 00:00 UTC: GPS and Galileo 18 s earlier, BeiDou 4 s earlier, GLONASS three
// hours earlier (Sunday 00:00 Moscow time).
func c06WeekOffset(c int) int64 {
	switch c {
	case c06GPS, c06Galileo:
		return -18 * c06Sec
	case c06Beidou:
		return -4 * c06Sec
	}
	return -3 * 3600 * c06Sec
}

// c06WeekStart: start of week number w of constellation c, ns relative to S0.
func c06WeekStart(c int, w int64) int64 { return w*c06Week + c06WeekOffset(c) }

// which epochs a harness explores (set by the harness before c06StartTime)
var c06EpochLo, c06EpochHi = 0, 0

type c06Obs struct {
	c       int
	week    int64 // symbolic week number
	ts      uint64
	u       int64 // true instant, ns relative to S0
	illegal bool
}

// c06Legal draws a legal symbolic timestamp of constellation c in symbolic
// week `week` and returns the observation.
func c06Legal(c int, i int) c06Obs {
	o := c06Obs{c: c}
	o.week = int64(verifU8(c04Name("week", i)) & 7)
	verifAssume(o.week <= 6)
	if c == c06Glonass {
		day := uint64(verifU8(c04Name("day", i))) & 7
		ms := uint64(verifU32(c04Name("ms", i))) & (1<<27 - 1)
		verifAssume(day <= 6)
		verifAssume(ms < uint64(c06MsInDay))
		o.ts = day<<27 | ms
		o.u = c06WeekStart(c, o.week) + int64(day)*c06Day + int64(ms)*c06Ms
		return o
	}
	ts := uint64(verifU32(c04Name("ts", i))) & (1<<30 - 1)
	verifAssume(ts < uint64(c06MsInWeek))
	o.ts = ts
	o.u = c06WeekStart(c, o.week) + int64(ts)*c06Ms
	return o
}

// c06IllegalTS draws an illegal timestamp: 7 days of milliseconds or more;
// for GLONASS day 7, or 24 h of milliseconds or more.
func c06IllegalTS(c int, i int) uint64 {
	ts := uint64(verifU32(c04Name("bad", i))) & (1<<30 - 1)
	if c == c06Glonass {
		day := ts >> 27
		ms := ts & (1<<27 - 1)
		verifAssume(verifOr(day == 7, ms >= uint64(c06MsInDay)))
		return ts
	}
	verifAssume(ts >= uint64(c06MsInWeek))
	return ts
}

func c06Frame(msgType, ts uint64) []byte {
	var b vfBits
	b.put(12, msgType)
	b.put(12, 5)
	b.put(30, ts)
	b.put(1+3+7+2+2+1+3, 0)
	b.put(64, 0)
	b.put(32, 0)
	for b.n%8 != 0 {
		b.put(1, 0)
	}
	return vfFrame(b.buf)
}

func c06Expect(o c06Obs) (string, string) {
	sent := "Time " + verifTimeOf(c06S0+o.u).Format(utils.DateLayout)
	week := "Start of " + c06Names[o.c] + " week " + verifTimeOf(c06S0+c06WeekStart(o.c, o.week)).Format(utils.DateLayout)
	return sent, week
}

// c06StartTime: a symbolic start time covering every position in a week on
// both sides of every rollover: nine days from Saturday of week 0.
func c06StartTime() int64 {
	c06S0 = c06Feb
	switch verifParam("new-year", c06EpochLo, c06EpochHi) {
	case 1:
		c06S0 = c06NewYear
	case 2:
		// a year in which the civil time of Moscow was not UTC+3 (GLONASS
		// only: its week is defined by Moscow time, UTC+3 by decree)
		c06S0 = c06In2013
	}
	// every instant the handler computes from T lies within [S0-2d, S0+9w)
	verifTimeWindow(c06S0-2*c06Day, c06S0+9*c06Week)
	// milliseconds and nanoseconds drawn separately and structurally bounded
	// (30 and 20 bits), so that the integer back end sees that nothing wraps
	ms := int64(verifU32("Tms") & (1<<30 - 1))
	ns := int64(verifU32("Tns") & (1<<20 - 1))
	verifAssume(ms < 9*c06MsInDay)
	verifAssume(ns < c06Ms)
	return 6*c06Day + ms*c06Ms + ns
}

// c06InWeekOf: instant t lies in week `week` of constellation c.
func c06InWeekOf(c int, week, t int64) bool {
	ws := c06WeekStart(c, week)
	return verifAnd(ws <= t, t < ws+c06Week)
}

type c06State struct {
	seen [4]bool
	last [4]int64
}

// c06Precondition assumes the property's precondition for observation o.
// anyStart (C17): the first observation only has to lie in T's week.
func (s *c06State) precondition(o c06Obs, t int64, anyStart bool) {
	if !s.seen[o.c] {
		verifAssume(c06InWeekOf(o.c, o.week, t))
		if !anyStart {
			verifAssume(o.u >= t)
		}
		return
	}
	verifAssume(o.u >= s.last[o.c])
	verifAssume(o.u-s.last[o.c] < 6*c06Day)
}

func (s *c06State) accept(o c06Obs) {
	s.seen[o.c] = true
	s.last[o.c] = o.u
}

func c06Send(h *Handler, o c06Obs, msm7 int, label string) {
	m, err := h.GetMessage(c06Frame(c06Types[o.c][msm7], o.ts))
	verifAssert(label+"-accepted", verifAnd(m != nil, err == nil))
	if m == nil {
		return
	}
	sent, week := c06Expect(o)
	verifAssert(label+"-utc-time", verifStrEq(m.SentAt, sent))
	verifAssert(label+"-start-of-week", verifStrEq(m.StartOfWeek, week))
}

func c06Run(k int, anyStart bool) {
	t := c06StartTime()
	if k > 2 && c06EpochLo != c06EpochHi && c06S0 == c06NewYear {
		// thorough tier, both epochs: the longer histories run in the
		// ordinary week only (three messages in both epochs take 40 minutes)
		k = 2
	}
	verifWitness("reached")
	h := New(verifTimeOf(c06S0+t), slog.LevelInfo)
	var s c06State
	for i := 0; i < k; i++ {
		c := verifParam(c04Name("c", i), 0, 3)
		if c06S0 == c06In2013 && c != c06Glonass {
			verifAssume(false)
		}
		msm7 := verifParam(c04Name("msm7", i), 0, 1)
		o := c06Legal(c, i)
		s.precondition(o, t, anyStart)
		c06Send(h, o, msm7, c04Name("msg", i))
		s.accept(o)
	}
	verifWitness("returned")
}

// Histories of k messages, any interleaving of the four constellations and
// of MSM4/MSM7.
func VerifC06_History() {
	k := 2
	c06EpochLo, c06EpochHi = 0, 0
	if verifTier() > 0 {
		k = 3
		c06EpochHi = 1
	}
	c06Run(k, false)
}

// An illegal timestamp at any position of a history is reported as an error
// and leaves the times of later valid messages undisturbed.
func VerifC06_Illegal() {
	k := 3
	// quick: the weeks around New Year (the week start computation crosses a
	// month and a year there); thorough: an ordinary week as well
	c06EpochLo, c06EpochHi = 1, 1
	if verifTier() > 0 {
		c06EpochLo = 0
	}
	t := c06StartTime()
	verifWitness("reached")
	h := New(verifTimeOf(c06S0+t), slog.LevelInfo)
	var s c06State
	// quick: valid, illegal, valid, all of one constellation; thorough: the
	// illegal one at any position and the valid ones of any constellation
	bad := 1
	if verifTier() > 0 {
		bad = verifParam("bad-at", 0, k-1)
	}
	cbad := verifParam("bad-c", 0, 3)
	for i := 0; i < k; i++ {
		if i == bad {
			ts := c06IllegalTS(cbad, i)
			m, err := h.GetMessage(c06Frame(c06Types[cbad][verifParam("bad-msm7", 0, 1)], ts))
			verifAssert("illegal-timestamp-reported", verifAnd(m != nil, err != nil))
			if m != nil {
				verifAssert("illegal-timestamp-error-text", m.ErrorMessage != "")
			}
			continue
		}
		c := cbad
		if verifTier() > 0 && verifParam(c04Name("same", i), 0, 1) == 0 {
			c = (cbad + 1 + verifParam(c04Name("other", i), 0, 2)) % 4
		}
		o := c06Legal(c, i)
		s.precondition(o, t, false)
		c06Send(h, o, 1, c04Name("msg", i))
		s.accept(o)
	}
	verifWitness("returned")
}

// C17: start time anywhere in the week of the first observation.
func VerifC17_StartAnywhereInWeek() {
	k := 2
	// quick: the weeks around New Year (a week that straddles the month and
	// the year) and, for GLONASS, a week of 2013; thorough: an ordinary week
	// as well
	c06EpochLo, c06EpochHi = 1, 2
	if verifTier() > 0 {
		k = 3
		c06EpochLo = 0
	}
	c06Run(k, true)
}

// Inductive step (long sessions, any number of rollovers).  The handler is
// put into an ARBITRARY state that satisfies the invariant "for every
// constellation the stored week start is the true start of the week of its
// last observation and the stored previous timestamp (GLONASS: day) is that
// observation's" -- week numbers and timestamps symbolic.  One more message
// of any constellation that respects the precondition (not earlier than the
// last one, less than six days later) must be reported with its true time and
// week start, re-establish the invariant for its constellation and leave the
// state of the other three untouched.  New() establishes the invariant with
// previous timestamp zero in the week of the start time (C17), so by
// induction histories of any length are covered.
func VerifC06_InductiveStep() {
	c06S0 = c06Feb
	verifTimeWindow(c06S0-2*c06Day, c06S0+9*c06Week)
	verifWitness("entered")
	h := New(verifTimeOf(c06S0+6*c06Day), slog.LevelInfo)
	// arbitrary valid state
	var prevWeek [4]int64
	var prevTs [4]uint64
	var prevU [4]int64
	for c := 0; c < 4; c++ {
		o := c06Legal(c, 10+c)
		verifAssume(o.week <= 5)
		prevWeek[c], prevTs[c], prevU[c] = o.week, o.ts, o.u
		ws := verifTimeOf(c06S0 + c06WeekStart(c, o.week))
		switch c {
		case c06GPS:
			h.startOfGPSWeek, h.timestampFromPreviousGPSMessage = ws, uint(o.ts)
		case c06Galileo:
			h.startOfGalileoWeek, h.timestampFromPreviousGalileoMessage = ws, uint(o.ts)
		case c06Beidou:
			h.startOfBeidouWeek, h.timestampFromPreviousBeidouMessage = ws, uint(o.ts)
		default:
			h.startOfGlonassWeek, h.glonassDayFromPreviousMessage = ws, uint(o.ts>>27)
		}
	}
	before := *h
	verifWitness("reached")
	c := verifParam("c", 0, 3)
	msm7 := verifParam("msm7", 0, 1)
	o := c06Legal(c, 0)
	verifAssume(o.u >= prevU[c])
	verifAssume(o.u-prevU[c] < 6*c06Day)
	c06Send(h, o, msm7, "step")
	verifWitness("returned")
	// the invariant holds again for c ...
	ws := verifTimeOf(c06S0 + c06WeekStart(c, o.week))
	okSelf := false
	switch c {
	case c06GPS:
		okSelf = verifAnd(h.startOfGPSWeek.Equal(ws), h.timestampFromPreviousGPSMessage == uint(o.ts))
	case c06Galileo:
		okSelf = verifAnd(h.startOfGalileoWeek.Equal(ws), h.timestampFromPreviousGalileoMessage == uint(o.ts))
	case c06Beidou:
		okSelf = verifAnd(h.startOfBeidouWeek.Equal(ws), h.timestampFromPreviousBeidouMessage == uint(o.ts))
	default:
		okSelf = verifAnd(h.startOfGlonassWeek.Equal(ws), h.glonassDayFromPreviousMessage == uint(o.ts>>27))
	}
	verifAssert("invariant-re-established", okSelf)
	// ... and the other constellations' state is untouched
	okOthers := true
	if c != c06GPS {
		okOthers = verifAnd(okOthers, verifAnd(h.startOfGPSWeek.Equal(before.startOfGPSWeek), h.timestampFromPreviousGPSMessage == before.timestampFromPreviousGPSMessage))
	}
	if c != c06Galileo {
		okOthers = verifAnd(okOthers, verifAnd(h.startOfGalileoWeek.Equal(before.startOfGalileoWeek), h.timestampFromPreviousGalileoMessage == before.timestampFromPreviousGalileoMessage))
	}
	if c != c06Beidou {
		okOthers = verifAnd(okOthers, verifAnd(h.startOfBeidouWeek.Equal(before.startOfBeidouWeek), h.timestampFromPreviousBeidouMessage == before.timestampFromPreviousBeidouMessage))
	}
	if c != c06Glonass {
		okOthers = verifAnd(okOthers, verifAnd(h.startOfGlonassWeek.Equal(before.startOfGlonassWeek), h.glonassDayFromPreviousMessage == before.glonassDayFromPreviousMessage))
	}
	verifAssert("other-constellations-untouched", okOthers)
}
