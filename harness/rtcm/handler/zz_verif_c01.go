//go:build verifharness

package handler

// C01 — only complete CRC-valid frames are presented as typed messages.
// C02 — stream segmentation is lossless (same stream harnesses, further
//       assertions; registered under both property prefixes).

import (
	"log/slog"

	"github.com/goblimey/go-crc24q/crc24q"
	"github.com/goblimey/go-ntrip/rtcm/pushback"
)

func init() {
	verifRegister("VerifC01_H1_SingleFrame", VerifC01_H1_SingleFrame)
	verifRegister("VerifC01_H6_SecondFrame", VerifC01_H6_SecondFrame)
	verifRegister("VerifC01_H2_StreamStep", VerifC01_H2_StreamStep)
	verifRegister("VerifC01_H3_Stream", VerifC01_H3_Stream)
	verifRegister("VerifC02_H2_StreamStep", VerifC02_H2_StreamStep)
	verifRegister("VerifC02_H3_Stream", VerifC02_H3_Stream)
	verifRegister("VerifC02_H4_Schedules", VerifC02_H4_Schedules)
}

// isExactFrame is the specification of "exactly one RTCM3 frame", written
// from the property text: preamble, six zero bits, non-zero 10-bit length
// equal to the payload size, CRC-24Q of everything before it.
func isExactFrame(r []byte) bool {
	if len(r) < 7 {
		return false
	}
	ok := r[0] == 0xd3
	ok = verifAnd(ok, r[1]&0xfc == 0)
	l := int(r[1]&3)<<8 | int(r[2])
	ok = verifAnd(ok, l != 0)
	ok = verifAnd(ok, l+6 == len(r))
	n := len(r)
	crc := crc24q.Hash(r[:n-3])
	ok = verifAnd(ok, byte(crc>>16) == r[n-3])
	ok = verifAnd(ok, byte(crc>>8) == r[n-2])
	ok = verifAnd(ok, byte(crc) == r[n-1])
	return ok
}

func first12PayloadBits(r []byte) int {
	return int(r[3])<<4 | int(r[4])>>4
}

// H1: one call of GetMessage on an arbitrary buffer of n bytes.
func VerifC01_H1_SingleFrame() {
	maxN := 14
	if verifTier() > 0 {
		maxN = 40
	}
	n := verifParam("n", 1, maxN)
	buf := verifBytes("buf", n)
	verifWitness("reached")
	h := New(verifTimeOf(vfTuesdayNoon), slog.LevelInfo)
	m, err := h.GetMessage(buf)
	if m != nil && m.MessageType >= 0 && err == nil {
		verifWitness("typed-message")
		verifAssert("typed-implies-exact-frame", isExactFrame(m.RawData))
		if len(m.RawData) >= 5 {
			verifAssert("type-is-first-12-payload-bits", m.MessageType == first12PayloadBits(m.RawData))
		}
	}
}

// c01Stream preloads a channel with the bytes and closes it: the stream
// handler then runs sequentially to the end of the input.
func c01Source(data []byte) chan byte {
	ch := make(chan byte, len(data)+1)
	for _, b := range data {
		ch <- b
	}
	close(ch)
	return ch
}

func c01Drain(out chan Message) []Message {
	var ms []Message
	for m := range out {
		ms = append(ms, m)
	}
	return ms
}

// H2: one FetchNextMessageFrame step from an arbitrary reachable state: the
// push-back buffer is empty or holds one 0xd3, then r symbolic bytes, then
// end of input.
func c01Step(checkLossless bool) {
	maxR := 10
	if verifTier() > 0 {
		maxR = 16
	}
	r := verifParam("r", 0, maxR)
	pushed := verifParam("pushed", 0, 1)
	rest := verifBytes("in", r)
	pb := pushback.New(c01Source(rest))
	var all []byte
	if pushed == 1 {
		pb.PushBack(0xd3)
		all = append(all, 0xd3)
	}
	all = append(all, rest...)
	verifWitness("reached")
	h := New(verifTimeOf(vfTuesdayNoon), slog.LevelInfo)
	m, err := h.FetchNextMessageFrame(pb)
	if m == nil {
		if checkLossless {
			verifAssert("done-only-when-nothing-left", verifAnd(len(all) == 0, err != nil && err.Error() == "done"))
		}
		return
	}
	if m.MessageType >= 0 {
		verifWitness("typed-message")
		if !checkLossless {
			verifAssert("typed-implies-exact-frame", isExactFrame(m.RawData))
			verifAssert("type-is-first-12-payload-bits", m.MessageType == first12PayloadBits(m.RawData))
		}
	}
	if !checkLossless {
		return
	}
	// C02: what was delivered is a non-empty prefix of the input and the
	// state left behind is exactly the remainder.
	k := len(m.RawData)
	verifAssert("delivered-non-empty", k > 0)
	if k > len(all) {
		verifAssert("delivered-not-longer-than-input", false)
		return
	}
	verifAssert("delivered-is-prefix-of-input", verifBytesEq(m.RawData, all[:k]))
	var remainder []byte
	for {
		b, e := pb.GetNextByte()
		if e != nil {
			break
		}
		remainder = append(remainder, b)
	}
	verifAssert("state-is-the-remainder", verifBytesEq(remainder, all[k:]))
}

func VerifC01_H2_StreamStep() { c01Step(false) }
func VerifC02_H2_StreamStep() { c01Step(true) }

// H3: the whole stream handler on n symbolic bytes.
func c01Stream(checkLossless bool) {
	maxN := 7
	if verifTier() > 0 {
		maxN = 10
	}
	n := verifParam("n", 0, maxN)
	in := verifBytes("in", n)
	out := make(chan Message, n+2)
	if checkLossless {
		verifOwnDeadlocks() // draining blocks for ever when the output is never closed
	}
	verifWitness("reached")
	h := New(verifTimeOf(vfTuesdayNoon), slog.LevelInfo)
	h.HandleMessages(c01Source(in), out)
	ms := c01Drain(out) // terminates only if the output was closed
	var cat []byte
	for i := range ms {
		if ms[i].MessageType >= 0 {
			verifWitness("typed-message")
			if !checkLossless {
				verifAssert("typed-implies-exact-frame", isExactFrame(ms[i].RawData))
				verifAssert("type-is-first-12-payload-bits", ms[i].MessageType == first12PayloadBits(ms[i].RawData))
			}
		}
		if checkLossless {
			verifAssert("no-empty-message", len(ms[i].RawData) > 0)
		}
		cat = append(cat, ms[i].RawData...)
	}
	if checkLossless {
		verifAssert("concatenation-equals-input", verifBytesEq(cat, in))
		verifAssert("output-closed-exactly-once", verifChanCloseCount(out) == 1)
	}
}

func VerifC01_H3_Stream() { c01Stream(false) }
func VerifC02_H3_Stream() { c01Stream(true) }

// C02, the schedule clause: a producer goroutine feeds the input channel
// byte by byte and closes it, the stream handler runs in its own goroutine,
// the harness drains the output; input and output channel capacities 0, 1, 2;
// the lazy, round-robin and one-preemption schedules.  The delivered bytes
// must be the input whatever the capacities and the interleaving.
func VerifC02_H4_Schedules() {
	verifOwnPanics()
	mode := verifParam("schedule", 0, 2)
	verifSchedule(mode, 1)
	maxN := 4
	if verifTier() > 0 {
		maxN = 6
	}
	n := verifParam("n", 0, maxN)
	inCap := verifParam("in-capacity", 0, 2)
	outCap := verifParam("out-capacity", 0, 2)
	data := verifBytes("in", n)
	in := make(chan byte, inCap)
	out := make(chan Message, outCap)
	verifWitness("reached")
	go func() {
		for _, b := range data {
			in <- b
		}
		close(in)
	}()
	h := New(verifTimeOf(vfTuesdayNoon), slog.LevelInfo)
	go h.HandleMessages(in, out)
	var cat []byte
	empty := false
	for m := range out { // ends only when the output is closed
		if len(m.RawData) == 0 {
			empty = true
		}
		cat = append(cat, m.RawData...)
	}
	verifQuiesce()
	verifWitness("returned")
	verifAssert("no-empty-message", !empty)
	verifAssert("concatenation-equals-input", verifBytesEq(cat, data))
	verifAssert("output-closed-exactly-once", verifChanCloseCount(out) == 1)
	verifAssert("goroutines-finished", verifLiveGoroutines() == 0)
}

// H6: GetMessage on one handler after it has handled other buffers ("in
// every order").  A predecessor buffer — a valid frame with symbolic
// contents or arbitrary bytes — goes through the same handler first; for the
// subject, an arbitrary buffer of the same or another length, a typed result
// without error must still be exactly one frame.  (State that a handler
// keeps between calls — a cache of what was last verified, a reused buffer —
// cannot make a damaged frame pass.)
func VerifC01_H6_SecondFrame() {
	np := verifParam("payload-before", 1, 3)
	var before []byte
	if verifParam("valid-before", 0, 1) == 1 {
		before = vfFrame(verifBytes("p", np))
	} else {
		before = verifBytes("p", np+6)
	}
	n := verifParam("n", 7, 9)
	buf := verifBytes("buf", n)
	verifWitness("reached")
	h := New(verifTimeOf(vfTuesdayNoon), slog.LevelInfo)
	_, _ = h.GetMessage(before)
	m, err := h.GetMessage(buf)
	if m != nil && m.MessageType >= 0 && err == nil {
		verifWitness("typed-message")
		verifAssert("typed-implies-exact-frame-after-another-buffer", isExactFrame(m.RawData))
		verifAssert("type-is-first-12-payload-bits-after-another-buffer", m.MessageType == first12PayloadBits(m.RawData))
	}
}
