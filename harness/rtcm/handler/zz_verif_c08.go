//go:build verifharness

package handler

// C08 — ranges, phase ranges and range rates equal the standard's formulas.
//
// Decomposition (DESIGN.md section 6, C08): the scaled-integer kernel is
// decided exactly over the whole field domain; the floating-point tail is
// compared with the reference formula applied to the same integer.

import (
	"log/slog"

	msm4sat "github.com/goblimey/go-ntrip/rtcm/type_msm4/satellite"
	msm4sig "github.com/goblimey/go-ntrip/rtcm/type_msm4/signal"
	msm7sat "github.com/goblimey/go-ntrip/rtcm/type_msm7/satellite"
	msm7sig "github.com/goblimey/go-ntrip/rtcm/type_msm7/signal"
	"github.com/goblimey/go-ntrip/rtcm/utils"
)

func init() {
	verifRegister("VerifC08_MSM7_Range", VerifC08_MSM7_Range)
	verifRegister("VerifC08_MSM7_PhaseRange", VerifC08_MSM7_PhaseRange)
	verifRegister("VerifC08_MSM7_Rate", VerifC08_MSM7_Rate)
	verifRegister("VerifC08_MSM4_Range", VerifC08_MSM4_Range)
	verifRegister("VerifC08_MSM4_PhaseRange", VerifC08_MSM4_PhaseRange)
	verifRegister("VerifC08_MSM4_vs_MSM7", VerifC08_MSM4_vs_MSM7)
	verifRegister("VerifC08_Wavelength", VerifC08_Wavelength)
	verifRegister("VerifC08_WavelengthAfterAnother", VerifC08_WavelengthAfterAnother)
	verifRegister("VerifC08_ApproxRange", VerifC08_ApproxRange)
}

const (
	c08TwoTo29 = 536870912.0
	c08TwoTo31 = 2147483648.0
	// c/1000: metres travelled by light in one millisecond
	c08LightMs = 299792.458
	c08C       = 299792458.0
)

func c08Rough() (whole, frac uint) {
	// Every case of the decoders (invalid rough, invalid fine, valid) is a
	// separate path here, so the float tails stay syntactically comparable.
	verifNoMerge()
	whole = verifUint("whole")
	frac = verifUint("frac")
	verifAssume(whole <= 255)
	verifAssume(frac <= 1023)
	return
}

func c08Signed(name string, bits uint) int {
	v := verifInt(name)
	lim := 1 << (bits - 1)
	verifAssume(v >= -lim)
	verifAssume(v < lim)
	return v
}

// c08Wavelength: the carrier wavelength of one of the documented signals.
func c08Wavelength() float64 {
	id := verifUint("signalID")
	verifAssume(id >= 1)
	verifAssume(id <= 32)
	c := verifParam("constellation", 0, 3)
	wl := utils.GetSignalWavelength([]string{"GPS", "Galileo", "Glonass", "Beidou"}[c], id)
	verifAssume(wl != 0)
	return wl
}

func VerifC08_MSM7_Range() {
	whole, frac := c08Rough()
	delta := c08Signed("delta", 20)
	sat := msm7sat.New(3, whole, frac, 0, 0, slog.LevelInfo)
	cell := msm7sig.New(2, sat, delta, 0, 0, false, 0, 0, 0.19, slog.LevelInfo)
	verifWitness("reached")
	agg := cell.GetAggregateRange()
	trueValue := int64(whole)<<29 + int64(frac)<<19 + int64(delta)
	switch {
	case whole == 255:
		verifAssert("msm7-range-invalid-rough-gives-zero", agg == 0)
		verifAssert("msm7-range-metres-invalid-rough-gives-zero", cell.RangeInMetres() == 0)
		return
	case delta == -524288:
		verifAssert("msm7-range-invalid-fine-falls-back-to-rough", agg == uint64(whole)<<29+uint64(frac)<<19)
	default:
		verifAssume(trueValue >= 0) // the property speaks of non-negative true values
		verifAssert("msm7-range-integer-kernel", agg == uint64(trueValue))
		verifAssert("msm7-range-fits-41-bits", agg < 1<<41)
	}
	// metres = c/1000 * agg * 2^-29, evaluated as the code documents it
	want := float64(agg) / c08TwoTo29 * c08LightMs
	verifAssert("msm7-range-metres", cell.RangeInMetres() == want)
}

func VerifC08_MSM7_PhaseRange() {
	whole, frac := c08Rough()
	delta := c08Signed("pdelta", 24)
	wl := c08Wavelength()
	sat := msm7sat.New(3, whole, frac, 0, 0, slog.LevelInfo)
	cell := msm7sig.New(2, sat, 0, delta, 0, false, 0, 0, wl, slog.LevelInfo)
	verifWitness("reached")
	agg := cell.GetAggregatePhaseRange()
	trueValue := int64(whole)<<31 + int64(frac)<<21 + int64(delta)
	switch {
	case whole == 255:
		verifAssert("msm7-phase-invalid-rough-gives-zero", agg == 0)
		verifAssert("msm7-phase-cycles-invalid-rough-gives-zero", cell.PhaseRange() == 0)
		return
	case delta == -8388608:
		verifAssert("msm7-phase-invalid-fine-falls-back-to-rough", agg == uint64(whole)<<31+uint64(frac)<<21)
	default:
		verifAssume(trueValue >= 0)
		verifAssert("msm7-phase-integer-kernel", agg == uint64(trueValue))
		verifAssert("msm7-phase-fits-41-bits", agg < 1<<41)
	}
	want := float64(agg) / c08TwoTo31 * c08LightMs / wl
	verifAssert("msm7-phase-cycles", cell.PhaseRange() == want)
}

func VerifC08_MSM7_Rate() {
	verifNoMerge()
	rough := c08Signed("rate", 14)
	fine := c08Signed("ratedelta", 15)
	wl := c08Wavelength()
	sat := msm7sat.New(3, 80, 0, 0, rough, slog.LevelInfo)
	cell := msm7sig.New(2, sat, 0, 0, 0, false, 0, fine, wl, slog.LevelInfo)
	verifWitness("reached")
	agg := cell.GetAggregatePhaseRangeRate()
	switch {
	case rough == -8192:
		verifAssert("msm7-rate-invalid-rough-gives-zero", agg == 0)
		verifAssert("msm7-rate-mps-invalid-rough-gives-zero", cell.PhaseRangeRate() == 0)
		return
	case fine == -16384:
		verifAssert("msm7-rate-invalid-fine-falls-back-to-rough", agg == int64(rough)*10000)
	default:
		verifAssert("msm7-rate-integer-kernel", agg == int64(rough)*10000+int64(fine))
	}
	want := float64(agg) / 10000
	verifAssert("msm7-rate-metres-per-second", cell.PhaseRangeRate() == want)
	verifAssert("msm7-doppler", cell.PhaseRangeRateDoppler() == (want/wl)*-1)
}

func VerifC08_MSM4_Range() {
	whole, frac := c08Rough()
	delta := c08Signed("delta", 15)
	sat := msm4sat.New(3, whole, frac, slog.LevelInfo)
	cell := msm4sig.New(2, sat, delta, 0, 0, false, 0, 0.19, slog.LevelInfo)
	verifWitness("reached")
	agg := cell.GetAggregateRange()
	// the MSM4 fine range is in units of 2^-24 ms = 32 units of 2^-29 ms
	trueValue := int64(whole)<<29 + int64(frac)<<19 + int64(delta)*32
	switch {
	case whole == 255:
		verifAssert("msm4-range-invalid-rough-gives-zero", agg == 0)
		verifAssert("msm4-range-metres-invalid-rough-gives-zero", cell.RangeInMetres() == 0)
		return
	case delta == -16384:
		verifAssert("msm4-range-invalid-fine-falls-back-to-rough", agg == uint64(whole)<<29+uint64(frac)<<19)
	default:
		verifAssume(trueValue >= 0)
		verifAssert("msm4-range-integer-kernel", agg == uint64(trueValue))
		verifAssert("msm4-range-fits-41-bits", agg < 1<<41)
	}
	want := float64(agg) / c08TwoTo29 * c08LightMs
	verifAssert("msm4-range-metres", cell.RangeInMetres() == want)
	verifAssert("msm4-range-millis", cell.RangeInMillis() == float64(agg)/c08TwoTo29)
}

func VerifC08_MSM4_PhaseRange() {
	whole, frac := c08Rough()
	delta := c08Signed("pdelta", 22)
	wl := c08Wavelength()
	sat := msm4sat.New(3, whole, frac, slog.LevelInfo)
	cell := msm4sig.New(2, sat, 0, delta, 0, false, 0, wl, slog.LevelInfo)
	verifWitness("reached")
	agg := cell.GetAggregatePhaseRange()
	// the MSM4 fine phase range is in units of 2^-29 ms = 4 units of 2^-31 ms
	trueValue := int64(whole)<<31 + int64(frac)<<21 + int64(delta)*4
	switch {
	case whole == 255:
		verifAssert("msm4-phase-invalid-rough-gives-zero", agg == 0)
		verifAssert("msm4-phase-cycles-invalid-rough-gives-zero", cell.PhaseRange() == 0)
		return
	case delta == -2097152:
		verifAssert("msm4-phase-invalid-fine-falls-back-to-rough", agg == uint64(whole)<<31+uint64(frac)<<21)
	default:
		verifAssume(trueValue >= 0)
		verifAssert("msm4-phase-integer-kernel", agg == uint64(trueValue))
		verifAssert("msm4-phase-fits-41-bits", agg < 1<<41)
	}
	want := float64(agg) / c08TwoTo31 * c08LightMs / wl
	verifAssert("msm4-phase-cycles", cell.PhaseRange() == want)
}

// An MSM4 cell and the MSM7 cell that encodes the same quantity (fine values
// scaled by 32 resp. 4) give identical integers and identical floats.
func VerifC08_MSM4_vs_MSM7() {
	whole, frac := c08Rough()
	d4 := c08Signed("delta4", 15)
	p4 := c08Signed("pdelta4", 22)
	wl := c08Wavelength()
	sat4 := msm4sat.New(3, whole, frac, slog.LevelInfo)
	sat7 := msm7sat.New(3, whole, frac, 0, 0, slog.LevelInfo)
	c4 := msm4sig.New(2, sat4, d4, p4, 0, false, 0, wl, slog.LevelInfo)
	c7 := msm7sig.New(2, sat7, d4*32, p4*4, 0, false, 0, 0, wl, slog.LevelInfo)
	verifWitness("reached")
	verifAssert("msm4-msm7-same-range-integer", c4.GetAggregateRange() == c7.GetAggregateRange())
	verifAssert("msm4-msm7-same-phase-integer", c4.GetAggregatePhaseRange() == c7.GetAggregatePhaseRange())
	verifAssert("msm4-msm7-same-range-metres", c4.RangeInMetres() == c7.RangeInMetres())
	verifAssert("msm4-msm7-same-phase-cycles", c4.PhaseRange() == c7.PhaseRange())
}

// c08Frequency is the documented carrier frequency table (RTCM 10403 / RTKLIB
// signal plan as the repository's README cites it); 0 = not in use.
func c08Frequency(constellation int, id uint) float64 {
	const (
		l1, l2, l5 = 1.57542e9, 1.22760e9, 1.17645e9
		e6, e5b    = 1.27875e9, 1.20714e9
		e5ab       = 1.191795e9
		g1, g2     = 1.60200e9, 1.24600e9
		b1, b2, b3 = 1.561098e9, 1.17645e9, 1.26852e9
	)
	switch constellation {
	case 0: // GPS
		switch id {
		case 2, 3, 4, 30, 31, 32:
			return l1
		case 8, 9, 10, 15, 16, 17:
			return l2
		case 22, 23, 24:
			return l5
		}
	case 1: // Galileo
		switch id {
		case 2, 3, 4, 5, 6:
			return l1
		case 8, 9, 10, 11, 12:
			return e6
		case 14, 15, 16:
			return e5b
		case 18, 19, 20:
			return e5ab
		case 22, 23, 24:
			return l5
		}
	case 2: // GLONASS
		switch id {
		case 2, 3:
			return g1
		case 8, 9:
			return g2
		}
	case 3: // BeiDou
		switch id {
		case 2, 3, 4:
			return b1
		case 8, 9, 10:
			return b3
		case 14, 15, 16:
			return b2
		}
	}
	return 0
}

func VerifC08_Wavelength() {
	c := verifParam("constellation", 0, 3)
	id := verifUint("signalID")
	verifWitness("reached")
	got := utils.GetSignalWavelength([]string{"GPS", "Galileo", "Glonass", "Beidou"}[c], id)
	f := c08Frequency(c, id)
	if f == 0 {
		verifAssert("wavelength-undefined-signal-is-zero", got == 0)
	} else {
		verifAssert("wavelength-is-c-over-f", got == c08C/f)
	}
}

// The wavelength of a signal does not depend on what was looked up before
// (a table built lazily, a cache): a lookup of any (constellation, signal id)
// comes first, then the subject as above.
func VerifC08_WavelengthAfterAnother() {
	names := []string{"GPS", "Galileo", "Glonass", "Beidou"}
	c0 := verifParam("constellation-before", 0, 3)
	id0 := verifUint("signalID-before")
	_ = utils.GetSignalWavelength(names[c0], id0)
	c := verifParam("constellation", 0, 3)
	id := verifUint("signalID")
	verifWitness("reached")
	got := utils.GetSignalWavelength(names[c], id)
	f := c08Frequency(c, id)
	if f == 0 {
		verifAssert("wavelength-undefined-signal-is-zero-after-another-lookup", got == 0)
	} else {
		verifAssert("wavelength-is-c-over-f-after-another-lookup", got == c08C/f)
	}
}

func VerifC08_ApproxRange() {
	whole, frac := c08Rough()
	verifWitness("reached")
	ms := utils.GetApproxRangeMilliseconds(whole, frac)
	verifAssert("approx-range-ms", ms == float64(whole<<10|frac)/1024)
	verifAssert("approx-range-metres", utils.GetApproxRangeMetres(whole, frac) == ms*c08LightMs)
}
