//go:build verifharness

package handler

// C15 — decoding and display are deterministic and free of hidden state.
//
// Self-composition: the same symbolic frame is decoded and displayed (a) by a
// fresh handler and (b) by a handler that has already processed other
// frames; everything except the MSM time lines must be identical.  Displaying
// a message repeatedly must give identical text and leave its raw bytes and
// fields alone, and two copies of a delivered message (the fan-out sends the
// struct by value) must not influence each other.

import (
	"log/slog"

	"github.com/goblimey/go-ntrip/rtcm/pushback"
)

func init() {
	verifRegister("VerifC15_HistoryIndependent", VerifC15_HistoryIndependent)
	verifRegister("VerifC15_RepeatedDisplay", VerifC15_RepeatedDisplay)
	verifRegister("VerifC15_CopiesIndependent", VerifC15_CopiesIndependent)
	verifRegister("VerifC15_RetainedMessages", VerifC15_RetainedMessages)
	verifRegister("VerifC15_ConcurrentHandlers", VerifC15_ConcurrentHandlers)
}

// c15Frame: a CRC-valid frame of a chosen kind with symbolic contents;
// truncated variants fail to decode (and must do so deterministically).
func c15Frame(kind int, name string) []byte {
	switch kind {
	case 0: // complete 1005
		p := verifBytes(name, 19)
		c07SetBits(p, 0, 12, 1005)
		return vfFrame(p)
	case 1: // complete 1006
		p := verifBytes(name, 21)
		c07SetBits(p, 0, 12, 1006)
		return vfFrame(p)
	case 2: // 1005 too short to decode
		p := verifBytes(name, 6)
		c07SetBits(p, 0, 12, 1005)
		return vfFrame(p)
	case 3: // a type the library does not decode
		p := verifBytes(name, 4)
		c07SetBits(p, 0, 12, 1230)
		return vfFrame(p)
	case 4: // complete MSM7, one satellite, one signal, cell mask symbolic
		return c15MSM(name, 1077, 36)
	case 5: // complete MSM4
		return c15MSM(name, 1074, 30)
	case 6: // MSM7 cut inside the header
		return c15MSM(name, 1077, 12)
	case 7: // MSM4 cut inside the signal data
		return c15MSM(name, 1074, 27)
	case 8: // complete MSM7 of another constellation (Galileo), same signal id
		return c15MSM(name, 1097, 36)
	default: // complete MSM4 of a third constellation (GLONASS)
		return c15MSM(name, 1084, 30)
	}
}

const c15Kinds = 10

func c15MSM(name string, msgType uint64, n int) []byte {
	p := verifBytes(name, n)
	c07SetBits(p, 0, 12, msgType)
	// a concrete legal timestamp: the time lines are not the subject
	c07SetBits(p, 24, 30, 345678901)
	satMask, sigMask := c07Masks(1, 1, 2)
	c07SetBits(p, 73, 64, satMask)
	c07SetBits(p, 137, 32, sigMask)
	return vfFrame(p)
}

type c15View struct {
	msgType int
	raw     []byte
	errText string
	text    string
	isMSM   bool
}

// c15Process decodes and displays the frame with the handler and returns
// what a user sees.
func c15Process(h *Handler, frame []byte, level slog.Level) c15View {
	m, _ := h.GetMessage(frame)
	if m == nil {
		return c15View{msgType: -999}
	}
	m.LogLevel = level
	Analyse(m)
	v := c15View{msgType: m.MessageType, raw: m.RawData, errText: m.ErrorMessage}
	t := m.MessageType
	v.isMSM = verifOr(c20IsMSM4(t), c20IsMSM7(t))
	if v.isMSM {
		// the readable part without the handler's time lines
		m.SentAt, m.StartOfWeek = "", ""
	}
	v.text = m.String()
	return v
}

func c15Level() slog.Level {
	if verifParam("debug", 0, 1) == 1 {
		return slog.LevelDebug
	}
	return slog.LevelInfo
}

func VerifC15_HistoryIndependent() {
	verifOwnPanics()
	verifHexModel()
	kind := verifParam("frame", 0, c15Kinds-1)
	before := verifParam("predecessor", 0, c15Kinds-1)
	level := c15Level()
	frame := c15Frame(kind, "f")
	other := c15Frame(before, "g")
	verifWitness("reached")
	fresh := c15Process(New(verifTimeOf(vfTuesdayNoon), level), frame, level)
	used := New(verifTimeOf(vfTuesdayNoon), level)
	_ = c15Process(used, other, level)
	_ = c15Process(used, frame, level) // and the frame itself once before
	again := c15Process(used, frame, level)
	verifWitness("returned")
	verifAssert("same-type-whatever-came-before", fresh.msgType == again.msgType)
	verifAssert("same-raw-bytes-whatever-came-before", verifBytesEq(fresh.raw, again.raw))
	verifAssert("same-error-whatever-came-before", verifStrEq(fresh.errText, again.errText))
	verifAssert("same-readable-text-whatever-came-before", verifStrEq(fresh.text, again.text))
}

func VerifC15_RepeatedDisplay() {
	verifOwnPanics()
	verifHexModel()
	kind := verifParam("frame", 0, c15Kinds-1)
	level := c15Level()
	frame := c15Frame(kind, "f")
	saved := append([]byte(nil), frame...)
	verifWitness("reached")
	h := New(verifTimeOf(vfTuesdayNoon), level)
	m, _ := h.GetMessage(frame)
	if m == nil {
		return
	}
	first := m.String()
	errAfterFirst := m.ErrorMessage
	second := m.String()
	third := m.String()
	verifWitness("returned")
	verifAssert("second-display-identical", verifStrEq(first, second))
	verifAssert("third-display-identical", verifStrEq(first, third))
	verifAssert("error-text-stable", verifStrEq(errAfterFirst, m.ErrorMessage))
	verifAssert("raw-bytes-never-modified", verifAnd(verifBytesEq(m.RawData, saved), verifBytesEq(frame, saved)))
}

func VerifC15_CopiesIndependent() {
	verifOwnPanics()
	verifHexModel()
	kind := verifParam("frame", 0, c15Kinds-1)
	level := c15Level()
	frame := c15Frame(kind, "f")
	saved := append([]byte(nil), frame...)
	verifWitness("reached")
	h := New(verifTimeOf(vfTuesdayNoon), level)
	m, _ := h.GetMessage(frame)
	if m == nil {
		return
	}
	// the fan-out delivers the struct by value to every consumer
	a, b := *m, *m
	errBefore := b.ErrorMessage
	textA := a.String()
	_ = a.String()
	verifWitness("returned")
	verifAssert("other-copy-raw-bytes-untouched", verifBytesEq(b.RawData, saved))
	verifAssert("other-copy-fields-untouched", verifAnd(verifStrEq(b.ErrorMessage, errBefore), verifAnd(b.Readable == nil, b.MessageType == m.MessageType)))
	verifAssert("other-copy-displays-the-same", verifStrEq(b.String(), textA))
}

// A message fetched from a stream must stay what it is while later frames
// are fetched, by the same handler or by another one (no buffer reused
// between fetches, no package-level scratch space behind RawData).
func VerifC15_RetainedMessages() {
	verifOwnPanics()
	verifHexModel()
	other := verifParam("other-handler", 0, 1) == 1
	lead := verifParam("leading-junk", 0, 1)
	var first []byte
	if lead == 1 {
		j := verifBytes("j", 2)
		verifAssume(j[0] != 0xd3)
		verifAssume(j[1] != 0xd3)
		first = j
	} else {
		p := verifBytes("a", 3)
		c07SetBits(p, 0, 12, 1230)
		first = vfFrame(p)
	}
	q := verifBytes("b", 4)
	c07SetBits(q, 0, 12, 1230)
	second := vfFrame(q)
	verifWitness("reached")
	h1 := New(verifTimeOf(vfTuesdayNoon), slog.LevelInfo)
	stream := append(append([]byte(nil), first...), second...)
	pb := pushback.New(c01Source(stream))
	m1, _ := h1.FetchNextMessageFrame(pb)
	if m1 == nil {
		return
	}
	saved := append([]byte(nil), m1.RawData...)
	text := m1.String()
	if other {
		h2 := New(verifTimeOf(vfTuesdayNoon), slog.LevelInfo)
		pb2 := pushback.New(c01Source(second))
		_, _ = h2.FetchNextMessageFrame(pb2)
	} else {
		_, _ = h1.FetchNextMessageFrame(pb)
	}
	verifWitness("returned")
	verifAssert("first-message-is-the-first-segment", verifBytesEq(saved, first))
	verifAssert("held-message-bytes-survive-later-fetches", verifBytesEq(m1.RawData, saved))
	m1.Readable = nil
	verifAssert("held-message-text-survives-later-fetches", verifStrEq(m1.String(), text))
}

// Several handlers in parallel goroutines.  Two goroutines that share
// nothing but the (read-only) frame each decode and display it with a
// handler of their own.  The isolation monitor is on meanwhile: any memory
// cell or map of the code under test that one of them writes and the other
// reads or writes is hidden shared state -- and, the goroutines being
// unordered, a data race under every schedule.  Both must see what a single
// handler shows.  Frame kinds as above plus a frame whose 12-bit type is
// symbolic (every type the library has no decoder for, known title or not).
func VerifC15_ConcurrentHandlers() {
	verifOwnPanics()
	verifHexModel()
	kind := verifParam("frame", 0, c15Kinds)
	level := c15Level()
	var frame []byte
	if kind == c15Kinds {
		p := verifBytes("f", 4)
		frame = vfFrame(p)
		t := uint(p[0])<<4 | uint(p[1])>>4
		verifAssume(t != 1005 && t != 1006 && t != 1230)
		verifAssume(!(verifOr(c20IsMSM4(int(t)), c20IsMSM7(int(t)))))
	} else {
		frame = c15Frame(kind, "f")
	}
	verifWitness("reached")
	var got [2]c15View
	done := make(chan int, 2)
	verifIsolationOn()
	for i := 0; i < 2; i++ {
		go func(i int) {
			h := New(verifTimeOf(vfTuesdayNoon), level)
			got[i] = c15Process(h, frame, level)
			done <- i
		}(i)
	}
	<-done
	<-done
	verifIsolationOff()
	// the reference comes last: whatever the first sight of a frame leaves
	// behind (a cache, say) is then left behind by the goroutines
	alone := c15Process(New(verifTimeOf(vfTuesdayNoon), level), frame, level)
	verifWitness("returned")
	for i := 0; i < 2; i++ {
		verifAssert("same-type-in-parallel", alone.msgType == got[i].msgType)
		verifAssert("same-raw-bytes-in-parallel", verifBytesEq(alone.raw, got[i].raw))
		verifAssert("same-error-in-parallel", verifStrEq(alone.errText, got[i].errText))
		verifAssert("same-readable-text-in-parallel", verifStrEq(alone.text, got[i].text))
	}
	// natively: many handlers over frames of every type under the race detector
	verifRaceStress(c15Stress, c15Stress, c15Stress, c15Stress)
}

func c15Stress() {
	h := New(verifTimeOf(vfTuesdayNoon), slog.LevelDebug)
	for t := 1; t < 4096; t++ {
		p := []byte{byte(t >> 4), byte(t<<4) | 1, 2, 3, 4, 5, 6, 7}
		m, _ := h.GetMessage(vfFrame(p))
		if m != nil {
			Analyse(m)
			_ = m.String()
		}
	}
}
