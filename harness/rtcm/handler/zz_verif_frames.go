//go:build verifharness

package handler

// Reference encoder shared by the handler-package harnesses: bit packing
// written from the RTCM field tables, independent of the decoder.

import (
	"github.com/goblimey/go-crc24q/crc24q"
)

// vfBits accumulates fields most-significant-bit first.
type vfBits struct {
	buf []byte
	n   uint // bits written
}

func (b *vfBits) put(width uint, v uint64) {
	for j := uint(0); j < width; j++ {
		bit := byte(v>>(width-1-j)) & 1
		if b.n%8 == 0 {
			b.buf = append(b.buf, 0)
		}
		b.buf[b.n/8] |= bit << (7 - b.n%8)
		b.n++
	}
}

func (b *vfBits) putSigned(width uint, v int64) { b.put(width, uint64(v)) }

func (b *vfBits) putBool(v bool) { b.put(1, verifB2U(v)) }

// vfFrame wraps a payload in the 3-byte leader and appends the CRC-24Q.
func vfFrame(payload []byte) []byte {
	n := len(payload)
	f := make([]byte, 0, n+6)
	f = append(f, 0xd3, byte(n>>8)&3, byte(n))
	f = append(f, payload...)
	crc := crc24q.Hash(f)
	return append(f, byte(crc>>16), byte(crc>>8), byte(crc))
}

// vfPad appends zero bytes to the payload (padding inside the frame).
func vfPad(payload []byte, n int) []byte {
	for i := 0; i < n; i++ {
		payload = append(payload, 0)
	}
	return payload
}

// A fixed start time for harnesses that do not study time: Tuesday
// 2023-02-14 12:00:00 UTC.
const vfTuesdayNoon int64 = 1676376000 * 1000000000
