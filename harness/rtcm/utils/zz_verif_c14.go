//go:build verifharness

package utils

// C14 — bit-field extraction returns exactly the addressed bits.

func init() {
	verifRegister("VerifC14_A_Unsigned", VerifC14_A_Unsigned)
	verifRegister("VerifC14_A_Signed", VerifC14_A_Signed)
	verifRegister("VerifC14_A_Independent", VerifC14_A_Independent)
	verifRegister("VerifC14_B_SymbolicPosWidth", VerifC14_B_SymbolicPosWidth)
}

// c14BitOf returns bit (p+j) of the buffer, counting from the most
// significant bit of byte 0, as 0 or 1.
func c14BitOf(buf []byte, bit uint) uint64 {
	return uint64(buf[bit/8]>>(7-bit%8)) & 1
}

// One instance per (width, alignment, leading bytes).  The buffer is exactly
// as long as the field needs, so a read past the field's last byte is an
// index panic, which this harness owns.
func VerifC14_A_Unsigned() {
	verifOwnPanics()
	w := uint(verifParam("w", 1, 64))
	p := uint(verifParam("p", 0, 15+120*verifTier()))
	n := int((p + w + 7) / 8)
	buf := verifBytes("buf", n)
	verifWitness("reached")
	got := GetBitsAsUint64(buf, p, w)
	ok := true
	for j := uint(0); j < w; j++ {
		ok = verifAnd(ok, (got>>(w-1-j))&1 == c14BitOf(buf, p+j))
	}
	verifAssert("unsigned-bits-msb-first", ok)
	if w < 64 {
		verifAssert("unsigned-no-bits-above-width", got>>w == 0)
	}
}

func VerifC14_A_Signed() {
	verifOwnPanics()
	w := uint(verifParam("w", 2, 64))
	p := uint(verifParam("p", 0, 15+120*verifTier()))
	n := int((p + w + 7) / 8)
	buf := verifBytes("buf", n)
	verifWitness("reached")
	// the unsigned value, built from the specification (not from the code
	// under test)
	var u uint64
	for j := uint(0); j < w; j++ {
		u = u<<1 | c14BitOf(buf, p+j)
	}
	want := int64(u<<(64-w)) >> (64 - w) // two's complement sign extension
	got := GetBitsAsInt64(buf, p, w)
	verifAssert("signed-twos-complement", got == want)
}

// Two buffers that agree on the field and differ arbitrarily elsewhere give
// the same results.
func VerifC14_A_Independent() {
	verifOwnPanics()
	w := uint(verifParam("w", 1, 64))
	p := uint(verifParam("p", 0, 15+120*verifTier()))
	n := int((p+w+7)/8) + 1
	a := verifBytes("a", n)
	b := verifBytes("b", n)
	same := true
	for j := uint(0); j < w; j++ {
		same = verifAnd(same, c14BitOf(a, p+j) == c14BitOf(b, p+j))
	}
	verifAssume(same)
	verifWitness("reached")
	verifAssert("unsigned-independent-of-other-bits", GetBitsAsUint64(a, p, w) == GetBitsAsUint64(b, p, w))
	if w >= 2 {
		verifAssert("signed-independent-of-other-bits", GetBitsAsInt64(a, p, w) == GetBitsAsInt64(b, p, w))
	}
}

// Position symbolic (any alignment, any byte offset inside a 6-byte
// buffer), width concrete per instance: the byte index and the shift count
// inside the extraction loop are solver terms.
func VerifC14_B_SymbolicPosWidth() {
	verifOwnPanics()
	const nbytes = 6
	buf := verifBytes("buf", nbytes)
	w := uint(verifParam("w", 1, 12+8*verifTier()))
	p := verifUint("p")
	verifAssume(p <= nbytes*8-w)
	verifWitness("reached")
	got := GetBitsAsUint64(buf, p, w)
	ok := true
	for j := uint(0); j < w; j++ {
		ok = verifAnd(ok, (got>>(w-1-j))&1 == c14BitOf(buf, p+j))
	}
	verifAssert("unsigned-bits-msb-first-symbolic-position", ok)
	verifAssert("unsigned-no-bits-above-width-symbolic-position", got>>w == 0)
}
