//go:build verifharness

package utils

import (
	"bytes"
	"encoding/binary"
	"math"
	"strconv"
	"strings"
	"sync"
	"sync/atomic"
)

func init() {
	verifRegister("VerifC99_Probe", VerifC99_Probe)
}

var probeOnce sync.Once
var probePool = sync.Pool{New: func() interface{} { return make([]byte, 4) }}
var probeCounter int32
var probeFlag atomic.Bool
var probeN atomic.Int64

func VerifC99_Probe() {
	b := verifBytes("b", 4)
	verifWitness("reached")
	switch verifParam("what", 0, 9) {
	case 0:
		v := binary.BigEndian.Uint32(b)
		verifAssert("be32", v == uint32(b[0])<<24|uint32(b[1])<<16|uint32(b[2])<<8|uint32(b[3]))
		verifAssert("le16", binary.LittleEndian.Uint16(b) == uint16(b[0])|uint16(b[1])<<8)
	case 1:
		n := 0
		probeOnce.Do(func() { n++ })
		probeOnce.Do(func() { n++ })
		verifAssert("once", n == 1)
	case 2:
		x := probePool.Get().([]byte)
		x[0] = b[0]
		probePool.Put(x)
		y := probePool.Get().([]byte)
		verifAssert("pool-reuse", y[0] == b[0])
	case 3:
		atomic.AddInt32(&probeCounter, 2)
		verifAssert("atomic-add", atomic.LoadInt32(&probeCounter) == 2)
		probeFlag.Store(true)
		verifAssert("atomic-bool", probeFlag.Load())
		probeN.Add(int64(b[0]))
		verifAssert("atomic-int64", probeN.Load() == int64(b[0]))
		verifAssert("cas", atomic.CompareAndSwapInt32(&probeCounter, 2, 5) && probeCounter == 5)
	case 4:
		f := float64(int8(b[0]))
		verifAssert("abs", math.Abs(f) >= 0)
		verifAssert("floor", math.Floor(f) == f)
		verifAssert("trunc", math.Trunc(f/2)*2 <= math.Abs(f)+1)
	case 5:
		s := strconv.Itoa(int(b[0]))
		verifAssert("itoa", verifStrEq(s, strconv.Itoa(int(b[0]))))
	case 6:
		verifAssert("bytes-equal", bytes.Equal(b, []byte{b[0], b[1], b[2], b[3]}))
		verifAssert("bytes-equal-ne", !bytes.Equal(b[:2], b[:3]))
	case 7:
		verifAssert("hassuffix", strings.HasSuffix("abc"+string(rune('a'+b[0]%2)), "a") == (b[0]%2 == 0))
	case 8:
		c := make([]byte, 2)
		n := copy(c, b)
		verifAssert("copy", n == 2 && c[1] == b[1])
	case 9:
		verifAssert("pow", math.Pow(2, -29) == 1.0/float64(1<<29))
		verifAssert("float-bits", math.Float64bits(1.0) == 0x3ff0000000000000)
	}
}
