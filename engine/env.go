package main

// Environment objects: the daily logger of github.com/goblimey/go-tools is
// replaced by a recording writer (file rotation, the logger's midnight
// blackout and disk errors are outside every claim that uses it).

import "strings"

type dlog struct {
	dir, leader, trailer string
	data                 []value
	writes               int
}

func icReaderRead(fr *frame, args []value) value {
	panic(pathAbort{"(*bufio.Reader).Read on a reader that is not a harness stub"})
}

func icBufioNewReader(fr *frame, args []value) value {
	panic(pathAbort{"bufio.NewReader"})
}

func icFileRead(fr *frame, args []value) value {
	panic(pathAbort{"(*os.File).Read"})
}

func icFileWrite(fr *frame, args []value) value {
	panic(pathAbort{"(*os.File).Write"})
}

func icDailyLoggerNew(fr *frame, args []value) value {
	dir, _ := args[0].(string)
	leader, _ := args[1].(string)
	trailer, _ := args[2].(string)
	d := &dlog{dir: dir, leader: leader, trailer: trailer}
	fr.m.dlogs = append(fr.m.dlogs, d)
	return &opaque{kind: "dailylogger", data: d}
}

func icDailyLoggerWrite(fr *frame, args []value) value {
	o, _ := args[0].(*opaque)
	if o == nil {
		fr.tpanic("invalid memory address or nil pointer dereference (nil daily logger)")
	}
	d := o.data.(*dlog)
	bs, _ := args[1].([]value)
	for _, b := range bs {
		d.data = append(d.data, b)
	}
	d.writes++
	return tuple{BV(uint64(len(bs)), 64), iface{}}
}

// verifDailyLog(dir, leader): everything written so far to the daily logs of
// that directory whose file name starts with leader.
func inDailyLog(fr *frame, args []value) value {
	dir, _ := args[0].(string)
	leader, _ := args[1].(string)
	var out []value
	for _, d := range fr.m.dlogs {
		if d.dir == dir && strings.HasPrefix(d.leader, leader) {
			out = append(out, d.data...)
		}
	}
	return out
}
