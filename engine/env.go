package main

// Environment objects: the daily logger of github.com/goblimey/go-tools is
// replaced by a recording writer (file rotation, the logger's midnight
// blackout and disk errors are outside every claim that uses it).

import (
	"strings"

	"golang.org/x/tools/go/ssa"
)

type dlog struct {
	dir, leader, trailer string
	data                 []value
	writes               int
}

func icReaderRead(fr *frame, args []value) value {
	panic(pathAbort{"(*bufio.Reader).Read on a reader that is not a harness stub"})
}

func icBufioNewReader(fr *frame, args []value) value {
	panic(pathAbort{"bufio.NewReader"})
}

// os.Stdin / os.Stdout: a scripted source (verifSetStdin: data delivered in
// chunks of a chosen size, then io.EOF) and a recording sink (verifStdout).
func icFileRead(fr *frame, args []value) value {
	m := fr.m
	o, _ := args[0].(*opaque)
	if o == nil || o.kind != "os.Stdin" {
		panic(pathAbort{"(*os.File).Read on a file other than os.Stdin"})
	}
	p, _ := args[1].([]value)
	if len(m.stdin) == 0 {
		eof := m.p.pkgs["io"].Members["EOF"].(*ssa.Global)
		return tuple{BV(0, 64), *m.global(eof)}
	}
	n := m.stdinChunk
	if n > len(p) {
		n = len(p)
	}
	if n > len(m.stdin) {
		n = len(m.stdin)
	}
	for i := 0; i < n; i++ {
		p[i] = m.stdin[i]
	}
	m.stdin = m.stdin[n:]
	return tuple{BV(uint64(n), 64), iface{}}
}

func icFileWrite(fr *frame, args []value) value {
	m := fr.m
	o, _ := args[0].(*opaque)
	bs, _ := args[1].([]value)
	if o != nil && o.kind == "os.Stdout" {
		if m.stdoutBroken {
			// verifStdoutBroken: the consumer of standard output has gone
			return tuple{BV(0, 64), m.newError(fr.g, "write /dev/stdout: broken pipe")}
		}
		m.stdout = append(m.stdout, bs...)
	} else if o == nil || o.kind != "os.Stderr" {
		panic(pathAbort{"(*os.File).Write on a file other than os.Stdout/os.Stderr"})
	}
	return tuple{BV(uint64(len(bs)), 64), iface{}}
}

func icDailyLoggerNew(fr *frame, args []value) value {
	dir, _ := args[0].(string)
	leader, _ := args[1].(string)
	trailer, _ := args[2].(string)
	d := &dlog{dir: dir, leader: leader, trailer: trailer}
	fr.m.dlogs = append(fr.m.dlogs, d)
	return &opaque{kind: "dailylogger", data: d}
}

func icDailyLoggerWrite(fr *frame, args []value) value {
	o, _ := args[0].(*opaque)
	if o == nil {
		fr.tpanic("invalid memory address or nil pointer dereference (nil daily logger)")
	}
	d := o.data.(*dlog)
	bs, _ := args[1].([]value)
	for _, b := range bs {
		d.data = append(d.data, b)
	}
	d.writes++
	return tuple{BV(uint64(len(bs)), 64), iface{}}
}

// verifDailyLog(dir, leader): everything written so far to the daily logs of
// that directory whose file name starts with leader.
func inDailyLog(fr *frame, args []value) value {
	dir, _ := args[0].(string)
	leader, _ := args[1].(string)
	var out []value
	for _, d := range fr.m.dlogs {
		if d.dir == dir && strings.HasPrefix(d.leader, leader) {
			out = append(out, d.data...)
		}
	}
	return out
}
