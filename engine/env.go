package main

// Environment objects created by harness intrinsics: scripted readers and
// recording writers.  (Filled in with the harnesses that need them.)

func icReaderRead(fr *frame, args []value) value {
	panic(pathAbort{"(*bufio.Reader).Read on a reader that is not a harness stub"})
}

func icBufioNewReader(fr *frame, args []value) value {
	panic(pathAbort{"bufio.NewReader"})
}

func icFileRead(fr *frame, args []value) value {
	panic(pathAbort{"(*os.File).Read"})
}

func icFileWrite(fr *frame, args []value) value {
	panic(pathAbort{"(*os.File).Write"})
}
