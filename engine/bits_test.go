package main

import "testing"

// A CRC-like term (xor of ites plus a constant) masked to 24 bits must be
// recognised as equal to the same three bytes reassembled with shifts and
// ors, whatever route the bytes took (regression test of the bit-slice
// normaliser: bit sources refined by known bits).
func TestEqBitsCRC(t *testing.T) {
	checkBits = true
	st := NewStore()
	a := st.Var("a", KBV, 8)
	b := st.Var("b", KBV, 8)
	i1 := st.Ite(st.Eq(st.Extract(a, 2, 2), BV(1, 1)), BV(4480805, 32), BV(0, 32))
	i2 := st.Ite(st.Eq(st.Extract(b, 1, 1), BV(1, 1)), BV(14748143, 32), BV(0, 32))
	crc := st.BXor(st.BXor(i1, i2), BV(13061890, 32))
	lhs := st.BAnd(crc, BV(0xffffff, 32))
	b0 := st.Extract(st.bin(OpLShr, crc, BV(16, 32)), 7, 0)
	b1 := st.Extract(st.bin(OpLShr, crc, BV(8, 32)), 7, 0)
	b2 := st.Extract(crc, 7, 0)
	rhs := st.BOr(st.BOr(st.bin(OpShl, st.ZExt(b0, 32), BV(16, 32)), st.bin(OpShl, st.ZExt(b1, 32), BV(8, 32))), st.ZExt(b2, 32))
	if e := st.Eq(lhs, rhs); !e.IsTrue() {
		t.Fatalf("not folded: %s", e.String())
	}
}

// Division and remainder by a power of two are rewritten to shifts and
// masks: the rewritten term must agree with Go's operators.
func TestPow2DivRem(t *testing.T) {
	st := NewStore()
	x := st.Var("x", KBV, 64)
	vals := []int64{0, 1, -1, 5, -5, 65535, 65536, -65536, -65537, 1 << 40, -(1 << 40) - 3, -9223372036854775808, 9223372036854775807, -131072, 131071}
	for _, k := range []uint{0, 1, 3, 16, 40, 62} {
		d := int64(1) << k
		for _, v := range vals {
			model := map[string]uint64{"x": uint64(v)}
			ev := func(op Op) uint64 {
				r := st.Eval(st.bin(op, x, BV(uint64(d), 64)), model, map[*Term]*Term{})
				if !r.IsConst() {
					t.Fatalf("not constant")
				}
				return r.c
			}
			if got, want := ev(OpSRem), uint64(v%d); got != want {
				t.Errorf("%d %% %d: got %d want %d", v, d, int64(got), int64(want))
			}
			if got, want := ev(OpSDiv), uint64(v/d); got != want {
				t.Errorf("%d / %d: got %d want %d", v, d, int64(got), int64(want))
			}
			if got, want := ev(OpURem), uint64(v)%uint64(d); got != want {
				t.Errorf("u %d %% %d: got %d want %d", v, d, got, want)
			}
			if got, want := ev(OpUDiv), uint64(v)/uint64(d); got != want {
				t.Errorf("u %d / %d: got %d want %d", v, d, got, want)
			}
		}
	}
}
