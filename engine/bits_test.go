package main

import "testing"

// A CRC-like term (xor of ites plus a constant) masked to 24 bits must be
// recognised as equal to the same three bytes reassembled with shifts and
// ors, whatever route the bytes took (regression test of the bit-slice
// normaliser: bit sources refined by known bits).
func TestEqBitsCRC(t *testing.T) {
	checkBits = true
	st := NewStore()
	a := st.Var("a", KBV, 8)
	b := st.Var("b", KBV, 8)
	i1 := st.Ite(st.Eq(st.Extract(a, 2, 2), BV(1, 1)), BV(4480805, 32), BV(0, 32))
	i2 := st.Ite(st.Eq(st.Extract(b, 1, 1), BV(1, 1)), BV(14748143, 32), BV(0, 32))
	crc := st.BXor(st.BXor(i1, i2), BV(13061890, 32))
	lhs := st.BAnd(crc, BV(0xffffff, 32))
	b0 := st.Extract(st.bin(OpLShr, crc, BV(16, 32)), 7, 0)
	b1 := st.Extract(st.bin(OpLShr, crc, BV(8, 32)), 7, 0)
	b2 := st.Extract(crc, 7, 0)
	rhs := st.BOr(st.BOr(st.bin(OpShl, st.ZExt(b0, 32), BV(16, 32)), st.bin(OpShl, st.ZExt(b1, 32), BV(8, 32))), st.ZExt(b2, 32))
	if e := st.Eq(lhs, rhs); !e.IsTrue() {
		t.Fatalf("not folded: %s", e.String())
	}
}
