package main

// Strings.  A concrete string is a Go string.  A string that depends on
// symbolic data is a *SymStr: a sequence of parts, each a literal, a single
// symbolic byte, or an opaque rendering (a fmt verb applied to a symbolic
// number, a time format, a hex dump of symbolic bytes).  Opaque renderings
// are compared structurally: two renderings of the same kind are equal iff
// their arguments are equal (the renderings used are injective), assuming
// the parts of the two strings line up.

import (
	"fmt"
	"strconv"
	"strings"
	"time"
)

type strPart struct {
	lit  string  // literal text when kind == ""
	kind string  // "byte", "fmt:<verb>", "time:<layout>", "hexdump"
	args []*Term // arguments of the rendering
	n    int     // byte length, -1 when unknown
}

type SymStr struct{ parts []strPart }

func litPart(s string) strPart { return strPart{lit: s, n: len(s)} }

func bytePart(b *Term) strPart {
	if b.IsConst() {
		return litPart(string([]byte{byte(b.c)}))
	}
	return strPart{kind: "byte", args: []*Term{b}, n: 1}
}

func partsOf(v value) []strPart {
	switch v := v.(type) {
	case string:
		if v == "" {
			return nil
		}
		return []strPart{litPart(v)}
	case *SymStr:
		return v.parts
	}
	panic(engineError{fmt.Sprintf("not a string: %T", v)})
}

// mkStr normalises parts and returns a Go string when nothing is symbolic.
func mkStr(parts []strPart) value {
	var out []strPart
	for _, p := range parts {
		if p.kind == "" {
			if p.lit == "" {
				continue
			}
			if n := len(out); n > 0 && out[n-1].kind == "" {
				out[n-1] = litPart(out[n-1].lit + p.lit)
				continue
			}
		}
		out = append(out, p)
	}
	if len(out) == 0 {
		return ""
	}
	if len(out) == 1 && out[0].kind == "" {
		return out[0].lit
	}
	return &SymStr{parts: out}
}

func concatStr(x, y value) value {
	px, py := partsOf(x), partsOf(y)
	all := make([]strPart, 0, len(px)+len(py))
	all = append(all, px...)
	all = append(all, py...)
	return mkStr(all)
}

func (s *SymStr) String() string {
	var sb strings.Builder
	for _, p := range s.parts {
		if p.kind == "" {
			sb.WriteString(p.lit)
		} else {
			sb.WriteString("‹" + p.kind + "›")
		}
		if sb.Len() > 300 {
			sb.WriteString("…")
			break
		}
	}
	return sb.String()
}

func (s *SymStr) length() (int, bool) {
	n := 0
	for _, p := range s.parts {
		if p.n < 0 {
			return 0, false
		}
		n += p.n
	}
	return n, true
}

// unit expands the string into single bytes when every part has unit structure.
func unitBytes(v value) ([]*Term, bool) {
	var out []*Term
	for _, p := range partsOf(v) {
		switch p.kind {
		case "":
			for i := 0; i < len(p.lit); i++ {
				out = append(out, BV(uint64(p.lit[i]), 8))
			}
		case "byte":
			out = append(out, p.args[0])
		default:
			return nil, false
		}
	}
	return out, true
}

func (s *SymStr) byteAt(i int) *Term {
	bs, ok := unitBytes(s)
	if !ok {
		panic(pathAbort{"indexing a string with opaque parts"})
	}
	return bs[i]
}

func (s *SymStr) substr(l, h int) value {
	bs, ok := unitBytes(s)
	if !ok {
		panic(pathAbort{"slicing a string with opaque parts"})
	}
	var parts []strPart
	for _, b := range bs[l:h] {
		parts = append(parts, bytePart(b))
	}
	return mkStr(parts)
}

func strToBytes(v value) []value {
	bs, ok := unitBytes(v)
	if !ok {
		panic(pathAbort{"[]byte conversion of a string with opaque parts"})
	}
	out := make([]value, len(bs))
	for i, b := range bs {
		out[i] = b
	}
	return out
}

func bytesToStr(bs []value) value {
	parts := make([]strPart, 0, len(bs))
	for _, b := range bs {
		parts = append(parts, bytePart(b.(*Term)))
	}
	return mkStr(parts)
}

// strEq returns the condition under which two strings are equal.
func (m *Machine) strEq(x, y value) *Term {
	st := m.st()
	if xs, ok := x.(string); ok {
		if ys, ok := y.(string); ok {
			return Bool(xs == ys)
		}
	}
	a := append([]strPart(nil), partsOf(x)...)
	b := append([]strPart(nil), partsOf(y)...)
	res := tTrue
	for len(a) > 0 && len(b) > 0 {
		pa, pb := a[0], b[0]
		switch {
		case pa.kind == "" && pb.kind == "":
			n := len(pa.lit)
			if len(pb.lit) < n {
				n = len(pb.lit)
			}
			if pa.lit[:n] != pb.lit[:n] {
				return tFalse
			}
			if len(pa.lit) == n {
				a = a[1:]
			} else {
				a[0] = litPart(pa.lit[n:])
			}
			if len(pb.lit) == n {
				b = b[1:]
			} else {
				b[0] = litPart(pb.lit[n:])
			}
		case pa.kind == "byte" && pb.kind == "byte":
			res = st.And(res, st.Eq(pa.args[0], pb.args[0]))
			a, b = a[1:], b[1:]
		case pa.kind == "byte" && pb.kind == "":
			res = st.And(res, st.Eq(pa.args[0], BV(uint64(pb.lit[0]), 8)))
			a = a[1:]
			if len(pb.lit) == 1 {
				b = b[1:]
			} else {
				b[0] = litPart(pb.lit[1:])
			}
		case pa.kind == "" && pb.kind == "byte":
			res = st.And(res, st.Eq(pb.args[0], BV(uint64(pa.lit[0]), 8)))
			b = b[1:]
			if len(pa.lit) == 1 {
				a = a[1:]
			} else {
				a[0] = litPart(pa.lit[1:])
			}
		case pa.kind == pb.kind && len(pa.args) == len(pb.args):
			for i := range pa.args {
				if pa.args[i].kind != pb.args[i].kind || pa.args[i].w != pb.args[i].w {
					panic(pathAbort{"comparison of renderings of different operand types"})
				}
				if pa.args[i].kind == KFP {
					// two renderings of floats are equal texts when the
					// values are equal OR both are NaN (fp.eq(x, x) is false
					// for NaN, "NaN" == "NaN" is not)
					x, y := pa.args[i], pb.args[i]
					if x == y {
						continue
					}
					res = st.And(res, st.Or(st.Eq(x, y), st.And(st.FIsNaN(x), st.FIsNaN(y))))
					continue
				}
				res = st.And(res, st.Eq(pa.args[i], pb.args[i]))
			}
			a, b = a[1:], b[1:]
		default:
			// an opaque rendering against a literal or a different rendering:
			// decidable only when the literal cannot start such a rendering
			if lit, op, ok := litVsOpaque(pa, pb); ok {
				if !canStart(op.kind, lit[0]) {
					return tFalse
				}
				// a time rendering against the literal rest of the other
				// string, both the last part of their strings: equal iff the
				// instant is the one the literal denotes (Format is injective
				// on instants at the layout's resolution)
				if strings.HasPrefix(op.kind, "time:") && strings.Contains(op.kind, "@") {
					// a rendering in a zone other than UTC against literal text: left open
					m.undecidedEq++
					u := st.Var(fmt.Sprintf("undecided-string-equality#%d", m.undecidedEq), KBool, 0)
					return st.And(res, u)
				}
				if strings.HasPrefix(op.kind, "time:") && len(a) == 1 && len(b) == 1 {
					layout := strings.TrimPrefix(op.kind, "time:")
					if tt, err := time.Parse(layout, lit); err == nil && tt.UTC().Format(layout) == lit {
						return st.And(res, st.Eq(op.args[0], BV(uint64(tt.UnixNano()), 64)))
					}
					return tFalse
				}
			}
			// an integer rendering against literal text: "%d" of t prints an
			// optional minus sign and digits, so it equals the literal's
			// maximal numeric prefix iff t is that number (decidable when
			// the rendering is not followed by another digit)
			if lit, op, ok := litVsOpaque(pa, pb); ok && strings.HasPrefix(op.kind, "fmt:%d/") {
				opSide, litSide := &a, &b
				if pa.kind == "" {
					opSide, litSide = &b, &a
				}
				n := 0
				if n < len(lit) && lit[n] == '-' {
					n++
				}
				d0 := n
				for n < len(lit) && lit[n] >= '0' && lit[n] <= '9' {
					n++
				}
				nextIsDigit := len(*opSide) > 1 && (*opSide)[1].kind == "" && len((*opSide)[1].lit) > 0 &&
					(*opSide)[1].lit[0] >= '0' && (*opSide)[1].lit[0] <= '9'
				if n > d0 && !nextIsDigit {
					if v, err := strconv.ParseInt(lit[:n], 10, 64); err == nil {
						t := op.args[0]
						res = st.And(res, st.Eq(t, BV(uint64(v), t.w)))
						*opSide = (*opSide)[1:]
						if n == len(lit) {
							*litSide = (*litSide)[1:]
						} else {
							(*litSide)[0] = litPart(lit[n:])
						}
						continue
					}
				}
				if n == d0 {
					return tFalse
				}
			}
			// anything else (a float rendering against literal text, two
			// different kinds of rendering): not decidable here.  The answer
			// is left open as a fresh boolean, so a claim that depends on it
			// is never discharged and a counterexample that depends on it is
			// confirmed or dismissed by the native replay.
			m.undecidedEq++
			u := st.Var(fmt.Sprintf("undecided-string-equality#%d", m.undecidedEq), KBool, 0)
			return st.And(res, u)
		}
		if res.IsFalse() {
			return tFalse
		}
	}
	if len(a) == 0 && len(b) == 0 {
		return res
	}
	// one side has text left: every part renders at least one byte
	rest := a
	if len(rest) == 0 {
		rest = b
	}
	for _, p := range rest {
		if p.n != 0 {
			return tFalse
		}
	}
	return res
}

func litVsOpaque(pa, pb strPart) (string, strPart, bool) {
	if pa.kind == "" && pb.kind != "" && pb.kind != "byte" {
		return pa.lit, pb, true
	}
	if pb.kind == "" && pa.kind != "" && pa.kind != "byte" {
		return pb.lit, pa, true
	}
	return "", strPart{}, false
}

// canStart says whether a rendering of the given kind can begin with byte c.
func canStart(kind string, c byte) bool {
	switch {
	case strings.HasPrefix(kind, "fmt:%d"), strings.HasPrefix(kind, "fmt:%v"):
		return c == '-' || (c >= '0' && c <= '9') || c == 't' || c == 'f'
	case strings.HasPrefix(kind, "fmt:%x"), strings.HasPrefix(kind, "fmt:%0x"), strings.HasPrefix(kind, "fmt:%2x"):
		return c == ' ' || c == '-' || (c >= '0' && c <= '9') || (c >= 'a' && c <= 'f')
	case strings.HasPrefix(kind, "time:"):
		return c >= '0' && c <= '9' || c == '-'
	case kind == "hexdump":
		return c == '0'
	}
	return true
}

func partsString(ps []strPart) string {
	return (&SymStr{parts: ps}).String()
}

// containsByte returns the condition under which the string contains c, when
// that can be determined structurally (unit parts only); ok=false otherwise.
func (m *Machine) strContainsLit(v value, sub string) (*Term, bool) {
	if s, ok := v.(string); ok {
		return Bool(strings.Contains(s, sub)), true
	}
	bs, ok := unitBytes(v)
	if !ok {
		// opaque parts: decide on the literal parts alone when the needle
		// cannot straddle or lie inside a rendering
		for _, p := range partsOf(v) {
			if p.kind == "" && strings.Contains(p.lit, sub) {
				return tTrue, true
			}
		}
		return nil, false
	}
	st := m.st()
	res := tFalse
	for i := 0; i+len(sub) <= len(bs); i++ {
		c := tTrue
		for j := 0; j < len(sub); j++ {
			c = st.And(c, st.Eq(bs[i+j], BV(uint64(sub[j]), 8)))
		}
		res = st.Or(res, c)
	}
	return res, true
}

// strLen returns the length of a string: exact when every part has a known
// length, otherwise known parts plus one bounded fresh variable per opaque
// rendering (a rendering is never empty).
func (m *Machine) strLen(s *SymStr) *Term {
	st := m.st()
	n := 0
	var sym *Term
	for _, p := range s.parts {
		if p.n >= 0 {
			n += p.n
			continue
		}
		name := "strlen(" + p.kind
		for _, a := range p.args {
			name += "," + a.key()
		}
		name += ")"
		v := st.Var(name, KBV, 64)
		if m.spec == 0 {
			m.addPC(st.And(st.ULe(BV(1, 64), v), st.ULe(v, BV(400, 64))))
		} else if _, known := m.pcKnow[st.And(st.ULe(BV(1, 64), v), st.ULe(v, BV(400, 64)))]; !known {
			panic(specAbort{"string length"})
		}
		if sym == nil {
			sym = v
		} else {
			sym = st.Add(sym, v)
		}
	}
	if sym == nil {
		return BV(uint64(n), 64)
	}
	return st.Add(sym, BV(uint64(n), 64))
}
