package main

// Lock-set monitor (verifGuardedBy / verifGuardOn / verifGuardOff): the
// harness declares that some memory cells (and the maps they hold) are
// protected by a mutex.  While the monitor is on, every load needs the read
// or the write lock held by the running goroutine and every store, map
// insert and map delete needs the write lock.  An access without the lock is
// a violation of kind "race"; it is confirmed natively by running the
// harness's concurrent stress section under the Go race detector.

import (
	"fmt"
	"os"
)

type guardInfo struct {
	mu   *value
	name string
}

func (m *Machine) guardRegister(mu *value, key interface{}, name string) {
	if m.guards == nil {
		m.guards = map[interface{}]*guardInfo{}
	}
	m.guards[key] = &guardInfo{mu: mu, name: name}
}

func (fr *frame) guardCheck(key interface{}, write bool) {
	m := fr.m
	if !m.guardOn || m.guards == nil {
		return
	}
	gi := m.guards[key]
	if gi == nil {
		return
	}
	ms := m.sched.mutex(gi.mu)
	ok := ms.locked && ms.owner == fr.g
	if !write && ms.readersBy[fr.g] > 0 {
		ok = true
	}
	if ok {
		return
	}
	kind := "read"
	if write {
		kind = "write"
	}
	label := fmt.Sprintf("unguarded-%s-of-%s", kind, gi.name)
	if os.Getenv("GOSYM_DEBUG") != "" {
		fmt.Fprintf(logw, "guard: %s at %s locked=%v ownerIsMe=%v readers=%d mine=%d mu=%p\n", label, fr.pos(), ms.locked, ms.owner == fr.g, ms.readers, ms.readersBy[fr.g], gi.mu)
	}
	for _, v := range m.res.Violations {
		if v.Label == label {
			return
		}
	}
	m.reportRace(label, fr.pos())
}

// reportRace records a lock-discipline violation on the current path.
func (m *Machine) reportRace(label, pos string) {
	st := m.st()
	excl := m.exclusion()
	r, mod := m.query(st.Not(excl))
	if r == "sat" {
		m.res.Violations = append(m.res.Violations, Violation{Harness: m.h.Name, Kind: "race", Label: label,
			Detail: "access without the protecting lock at " + pos, Inputs: m.inputsFrom(mod), Params: m.paramsCopy(), Pos: pos})
	} else if r == "unknown" {
		m.res.Unknown++
	}
}
