package main

// Lock-set monitor (verifGuardedBy / verifGuardOn / verifGuardOff): the
// harness declares that some memory cells (and the maps they hold) are
// protected by a mutex.  While the monitor is on, every load needs the read
// or the write lock held by the running goroutine and every store, map
// insert and map delete needs the write lock.  An access without the lock is
// a violation of kind "race"; it is confirmed natively by running the
// harness's concurrent stress section under the Go race detector.

import (
	"fmt"
	"os"
)

type guardInfo struct {
	mu   *value
	name string
}

func (m *Machine) guardRegister(mu *value, key interface{}, name string) {
	if m.guards == nil {
		m.guards = map[interface{}]*guardInfo{}
	}
	m.guards[key] = &guardInfo{mu: mu, name: name}
}

// Isolation monitor (verifIsolationOn / verifIsolationOff): the harness
// declares that the goroutines running while the monitor is on share no
// mutable state -- they are independent users of the code under test that
// never synchronise with each other.  Then a memory cell or map that one
// goroutine writes and another one reads or writes (outside any mutex) is
// hidden shared state and a data race, whatever the schedule: the two
// accesses are unordered.  Confirmed natively by the race detector on the
// harness's stress section.
type isoRec struct {
	first   *G
	written bool // by first
	shared  bool // read by more than one goroutine
}

func (fr *frame) isoCheck(key interface{}, write bool) {
	m := fr.m
	if fr.g == nil || fr.g.nlocks > 0 {
		return
	}
	if m.iso == nil {
		m.iso = map[interface{}]*isoRec{}
	}
	rec := m.iso[key]
	if rec == nil {
		m.iso[key] = &isoRec{first: fr.g, written: write}
		return
	}
	if rec.first == fr.g && !rec.shared {
		rec.written = rec.written || write
		return
	}
	// a second goroutine (or a write after several readers)
	if write || rec.written {
		label := "state-shared-between-independent-goroutines"
		for _, v := range m.res.Violations {
			if v.Label == label {
				return
			}
		}
		m.reportRaceDetail(label, fr.pos(), "a cell or map written by one goroutine is used by another one that shares no lock and no ordering with it, at ")
		return
	}
	rec.shared = true
}

func (fr *frame) guardCheck(key interface{}, write bool) {
	m := fr.m
	if m.isoOn {
		fr.isoCheck(key, write)
	}
	if !m.guardOn || m.guards == nil {
		return
	}
	gi := m.guards[key]
	if gi == nil {
		return
	}
	ms := m.sched.mutex(gi.mu)
	ok := ms.locked && ms.owner == fr.g
	if !write && ms.readersBy[fr.g] > 0 {
		ok = true
	}
	if ok {
		return
	}
	kind := "read"
	if write {
		kind = "write"
	}
	label := fmt.Sprintf("unguarded-%s-of-%s", kind, gi.name)
	if os.Getenv("GOSYM_DEBUG") != "" {
		fmt.Fprintf(logw, "guard: %s at %s locked=%v ownerIsMe=%v readers=%d mine=%d mu=%p\n", label, fr.pos(), ms.locked, ms.owner == fr.g, ms.readers, ms.readersBy[fr.g], gi.mu)
	}
	for _, v := range m.res.Violations {
		if v.Label == label {
			return
		}
	}
	m.reportRace(label, fr.pos())
}

// reportRace records a lock-discipline violation on the current path.
func (m *Machine) reportRace(label, pos string) {
	m.reportRaceDetail(label, pos, "access without the protecting lock at ")
}

func (m *Machine) reportRaceDetail(label, pos, detail string) {
	st := m.st()
	excl := m.exclusion()
	r, mod := m.query(st.Not(excl))
	if r == "sat" {
		m.res.Violations = append(m.res.Violations, Violation{Harness: m.h.Name, Kind: "race", Label: label,
			Detail: detail + pos, Inputs: m.inputsFrom(mod), Params: m.paramsCopy(), Pos: pos})
	} else if r == "unknown" {
		m.res.Unknown++
	}
}
