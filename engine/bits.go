package main

// Bit-slice normalisation.  Code that packs and unpacks bit fields one bit at
// a time (the repository's GetBitsAsUint64, the harnesses' reference
// encoder) builds long chains of shifts, masks and ors.  Each such term is a
// pure rearrangement of bits of other terms; this file tracks, per bit, where
// it comes from and rebuilds the term as a short concatenation of extracts,
// so that "unpack(pack(x))" becomes x again syntactically.
//
// Sound by construction: every rule below is an identity on the bit level;
// GOSYM_CHECK_BITS=1 additionally evaluates every rebuilt term against the
// original on random assignments.

import (
	"fmt"
	"math/rand"
	"os"
)

type bitSrc struct {
	t *Term // nil: constant bit, value in i
	i int
}

var checkBits = os.Getenv("GOSYM_CHECK_BITS") != ""

func constBit(v uint64) bitSrc { return bitSrc{nil, int(v & 1)} }

func (b bitSrc) isConst() bool { return b.t == nil }

// bitsOf returns the source of every bit of t (index 0 = least significant).
func (s *Store) bitsOf(t *Term) []bitSrc {
	if t.op == OpConst {
		// never cached: constants are shared between workers
		bits := make([]bitSrc, t.w)
		for i := range bits {
			bits[i] = constBit(t.c >> uint(i))
		}
		return bits
	}
	if t.bits != nil {
		return t.bits
	}
	w := t.w
	bits := make([]bitSrc, w)
	self := func() {
		for i := range bits {
			bits[i] = bitSrc{t, i}
		}
	}
	switch t.op {
	case OpConst:
		for i := range bits {
			bits[i] = constBit(t.c >> uint(i))
		}
	case OpExtract:
		if t.a[0].w <= 64 {
			copy(bits, s.bitsOf(t.a[0])[t.p2:t.p1+1])
		} else {
			self()
		}
	case OpZExt:
		n := copy(bits, s.bitsOf(t.a[0]))
		for i := n; i < w; i++ {
			bits[i] = constBit(0)
		}
	case OpSExt:
		src := s.bitsOf(t.a[0])
		n := copy(bits, src)
		for i := n; i < w; i++ {
			bits[i] = src[n-1]
		}
	case OpConcat:
		lo := s.bitsOf(t.a[1])
		hi := s.bitsOf(t.a[0])
		copy(bits, lo)
		copy(bits[len(lo):], hi)
	case OpShl, OpLShr:
		c := t.a[1]
		if !c.IsConst() {
			self()
			break
		}
		src := s.bitsOf(t.a[0])
		k := int(c.c)
		if c.c >= uint64(w) {
			k = w
		}
		for i := range bits {
			j := i - k
			if t.op == OpLShr {
				j = i + k
			}
			if j < 0 || j >= w {
				bits[i] = constBit(0)
			} else {
				bits[i] = src[j]
			}
		}
	case OpAnd, OpOr, OpXor:
		x, y := s.bitsOf(t.a[0]), s.bitsOf(t.a[1])
		for i := range bits {
			a, b := x[i], y[i]
			var r bitSrc
			ok := true
			switch t.op {
			case OpAnd:
				switch {
				case a.isConst() && a.i == 0, b.isConst() && b.i == 0:
					r = constBit(0)
				case a.isConst(): // 1
					r = b
				case b.isConst():
					r = a
				case a == b:
					r = a
				default:
					ok = false
				}
			case OpOr:
				switch {
				case a.isConst() && a.i == 1, b.isConst() && b.i == 1:
					r = constBit(1)
				case a.isConst():
					r = b
				case b.isConst():
					r = a
				case a == b:
					r = a
				default:
					ok = false
				}
			default:
				switch {
				case a.isConst() && b.isConst():
					r = constBit(uint64(a.i ^ b.i))
				case a.isConst() && a.i == 0:
					r = b
				case b.isConst() && b.i == 0:
					r = a
				case a == b:
					r = constBit(0)
				default:
					ok = false
				}
			}
			if !ok {
				r = bitSrc{t, i}
			}
			bits[i] = r
		}
	default:
		self()
	}
	// bits that the known-bits analysis fixes are constants whatever their
	// structural source is (keeps the description canonical: a rebuilt term
	// and its original describe every bit the same way)
	if k0, k1 := t.known(); k0|k1 != 0 {
		for i := range bits {
			if k0>>uint(i)&1 == 1 {
				bits[i] = constBit(0)
			} else if k1>>uint(i)&1 == 1 {
				bits[i] = constBit(1)
			}
		}
	}
	t.bits = bits
	return bits
}

type bitPiece struct {
	src    *Term // nil: constant
	hi, lo int   // bit range in src
	val    uint64
	w      int
}

// piecesOf groups a bit vector into maximal runs, most significant first.
func piecesOf(bits []bitSrc) []bitPiece {
	var ps []bitPiece
	for i := len(bits) - 1; i >= 0; {
		b := bits[i]
		j := i
		if b.isConst() {
			var v uint64
			for j >= 0 && bits[j].isConst() {
				v = v<<1 | uint64(bits[j].i)
				j--
			}
			ps = append(ps, bitPiece{val: v, w: i - j})
		} else {
			for j-1 >= 0 && bits[j-1].t == b.t && bits[j-1].i == bits[j].i-1 {
				j--
			}
			ps = append(ps, bitPiece{src: b.t, hi: b.i, lo: bits[j].i, w: i - j + 1})
			j--
		}
		i = j
	}
	return ps
}

const maxPieces = 6

// normBits returns a simpler term equal to t when t is a pure rearrangement
// of bits of other terms (at most maxPieces runs), else t itself.
func (s *Store) normBits(t *Term) *Term {
	if t.kind != KBV || t.w > 64 || t.op == OpConst || t.op == OpVar {
		return t
	}
	if t.norm != nil {
		return t.norm
	}
	bits := s.bitsOf(t)
	for _, b := range bits {
		if b.t == t {
			t.norm = t
			return t
		}
	}
	ps := piecesOf(bits)
	if len(ps) > maxPieces {
		t.norm = t
		return t
	}
	// the canonical form of one piece is the plain extract (or the source)
	var r *Term
	for _, p := range ps {
		var pt *Term
		if p.src == nil {
			pt = BV(p.val, p.w)
		} else {
			pt = s.rawExtract(p.src, p.hi, p.lo)
		}
		if r == nil {
			r = pt
		} else if r.IsConst() && r.c == 0 {
			r = s.rawZExt(pt, r.w+pt.w)
		} else {
			r = s.rawConcat(r, pt)
		}
	}
	if r.w != t.w {
		panic(engineError{fmt.Sprintf("normBits: width %d != %d", r.w, t.w)})
	}
	if r != t && r.op != OpConst {
		r.norm = r
		if r.bits == nil {
			r.bits = bits
			if checkBits {
				r.bits = nil
				nat := s.bitsOf(r)
				for i := range nat {
					if nat[i] != bits[i] {
						panic(engineError{fmt.Sprintf("normBits: bits of the rebuilt term differ at %d: %v vs %v; t=%s r=%s", i, bits[i], nat[i], t.String(), r.String())})
					}
				}
			}
		}
	}
	if checkBits {
		s.checkSame(t, r)
	}
	t.norm = r
	return r
}

func (s *Store) rawExtract(x *Term, hi, lo int) *Term {
	if lo == 0 && hi == x.w-1 {
		return x
	}
	if x.IsConst() {
		return BV(x.c>>uint(lo), hi-lo+1)
	}
	return s.mk(OpExtract, KBV, hi-lo+1, hi, lo, x)
}

func (s *Store) rawZExt(x *Term, to int) *Term {
	if x.IsConst() {
		return BV(x.c, to)
	}
	if x.op == OpZExt {
		x = x.a[0]
	}
	return s.mk(OpZExt, KBV, to, to-x.w, 0, x)
}

func (s *Store) rawConcat(hi, lo *Term) *Term {
	if hi.IsConst() && lo.IsConst() && hi.w+lo.w <= 64 {
		return BV(hi.c<<uint(lo.w)|lo.c, hi.w+lo.w)
	}
	return s.mk(OpConcat, KBV, hi.w+lo.w, 0, 0, hi, lo)
}

// checkSame evaluates a and b on random assignments (debug aid).
func (s *Store) checkSame(a, b *Term) {
	if s.rng == nil {
		s.rng = rand.New(rand.NewSource(12345))
	}
	bitsRng := s.rng
	vars := collectVars([]*Term{a, b})
	for try := 0; try < 8; try++ {
		model := map[string]uint64{}
		for _, v := range vars {
			model[v.name] = bitsRng.Uint64()
		}
		va := s.Eval(a, model, map[*Term]*Term{})
		vb := s.Eval(b, model, map[*Term]*Term{})
		if !va.IsConst() || !vb.IsConst() || va.c != vb.c {
			panic(engineError{fmt.Sprintf("normBits changed the value: %s vs %s under %v", a.String(), b.String(), model)})
		}
	}
}
