package main

// Native replay: counterexamples and sampled path models are run against
// the real build of /repo (go test with the harness overlay), and the
// engine's prediction is compared with what the compiled code does.

import (
	"bytes"
	"encoding/json"
	"fmt"
	"math/rand"
	"os"
	"os/exec"
	"path/filepath"
	"strings"
	"time"
)

type replayCase struct {
	Harness string            `json:"harness"`
	Inputs  map[string]uint64 `json:"inputs"`
	Params  map[string]int64  `json:"params"`
	Tier    int               `json:"tier"`
	Expect  string            `json:"expect,omitempty"` // assert | panic | deadlock | ok
	Label   string            `json:"label,omitempty"`
	Detail  string            `json:"detail,omitempty"`
	Known   []string          `json:"known,omitempty"`
	Trace   []string          `json:"trace,omitempty"` // engine's assert labels in order (conformance)
}

type nativeResult struct {
	Asserts      [][2]interface{} `json:"asserts"` // [label, ok]
	Panic        string           `json:"panic"`
	AssumeFailed bool             `json:"assume_failed"`
	AssumeAt     string           `json:"assume_at"`
	Hang         bool             `json:"hang"`
	Witnesses    []string         `json:"witnesses"`
}

// writeOverlay materialises the harness overlay for the go tool.
func writeOverlay(p *Program, dir string) (string, error) {
	repl := map[string]string{}
	i := 0
	for virt, data := range p.overlay {
		i++
		real := filepath.Join(dir, fmt.Sprintf("f%d_%s", i, filepath.Base(virt)))
		if err := os.WriteFile(real, data, 0o644); err != nil {
			return "", err
		}
		repl[virt] = real
	}
	js, _ := json.Marshal(map[string]interface{}{"Replace": repl})
	f := filepath.Join(dir, "overlay.json")
	return f, os.WriteFile(f, js, 0o644)
}

// runNative runs the cases (all of one package) through the native build.
func runNative(p *Program, pkgPath string, cases []replayCase, timeout time.Duration) ([]nativeResult, string, error) {
	return runNativeOpt(p, pkgPath, cases, timeout, false)
}

// runNativeOpt: with race, the test binary is built with the race detector
// and the harnesses' verifRaceStress sections run.
func runNativeOpt(p *Program, pkgPath string, cases []replayCase, timeout time.Duration, race bool) ([]nativeResult, string, error) {
	dir, err := os.MkdirTemp("", "gosym-replay-")
	if err != nil {
		return nil, "", err
	}
	defer os.RemoveAll(dir)
	ovf, err := writeOverlay(p, dir)
	if err != nil {
		return nil, "", err
	}
	cf := filepath.Join(dir, "cases.json")
	js, _ := json.Marshal(cases)
	if err := os.WriteFile(cf, js, 0o644); err != nil {
		return nil, "", err
	}
	rel := "./" + strings.TrimPrefix(strings.TrimPrefix(pkgPath, repoModule), "/")
	argv := []string{"test", "-vet=off", "-count=1", "-tags", harnessTag, "-overlay", ovf,
		"-run", "^TestVerifReplay$", "-timeout", fmt.Sprintf("%ds", int(timeout.Seconds())), "-v"}
	if race {
		argv = append(argv, "-race")
	}
	argv = append(argv, rel)
	cmd := exec.Command("go", argv...)
	cmd.Dir = p.repoDir
	cmd.Env = append(os.Environ(), "GOFLAGS=-mod=mod", "GOPROXY=off", "GOSUMDB=off", "GOTOOLCHAIN=local",
		"VERIF_REPLAY="+cf)
	if race {
		cmd.Env = append(cmd.Env, "VERIF_RACE=1")
	}
	var out bytes.Buffer
	cmd.Stdout = &out
	cmd.Stderr = &out
	runErr := cmd.Run()
	res := make([]nativeResult, len(cases))
	got := 0
	for _, line := range strings.Split(out.String(), "\n") {
		line = strings.TrimSpace(line)
		if !strings.HasPrefix(line, "VERIF-CASE ") {
			continue
		}
		rest := strings.TrimPrefix(line, "VERIF-CASE ")
		sp := strings.IndexByte(rest, ' ')
		if sp < 0 {
			continue
		}
		var idx int
		fmt.Sscan(rest[:sp], &idx)
		if idx < 0 || idx >= len(res) {
			continue
		}
		if err := json.Unmarshal([]byte(rest[sp+1:]), &res[idx]); err == nil {
			got++
		}
	}
	if got != len(cases) {
		return res, out.String(), fmt.Errorf("native run produced %d of %d results (%v)", got, len(cases), runErr)
	}
	return res, out.String(), nil
}

func failedLabels(r nativeResult) []string {
	var f []string
	for _, a := range r.Asserts {
		if ok, _ := a[1].(bool); !ok {
			f = append(f, fmt.Sprint(a[0]))
		}
	}
	return f
}

// replayNative confirms one counterexample against the real build.
func replayNative(p *Program, file string) replayOutcome {
	data, err := os.ReadFile(file)
	if err != nil {
		return replayOutcome{false, err.Error()}
	}
	var rc replayCase
	if err := json.Unmarshal(data, &rc); err != nil {
		return replayOutcome{false, err.Error()}
	}
	pkg := p.harnessPackage(rc.Harness)
	if pkg == "" {
		return replayOutcome{false, "harness not found: " + rc.Harness}
	}
	if rc.Expect == "race" {
		// lock-discipline violation: confirmed when the race detector sees a
		// conflicting access in the harness's concurrent stress section
		_, out, _ := runNativeOpt(p, pkg, []replayCase{rc}, 180*time.Second, true)
		if strings.Contains(out, "fatal error: concurrent map") {
			return replayOutcome{true, "the Go runtime stops the native stress run: concurrent map access"}
		}
		if strings.Contains(out, "DATA RACE") {
			return replayOutcome{true, "the Go race detector reports a data race in the native stress run"}
		}
		return replayOutcome{false, "no data race observed natively"}
	}
	res, out, err := runNative(p, pkg, []replayCase{rc}, 120*time.Second)
	if err != nil && strings.Contains(out, "panic: ") && strings.Contains(out, "goroutine ") {
		// the native test process died of a panic outside the harness
		// goroutine (for example a send on a closed channel in a goroutine
		// of the code under test): that is a crash
		line := out[strings.Index(out, "panic: "):]
		if i := strings.IndexByte(line, '\n'); i > 0 {
			line = line[:i]
		}
		return replayOutcome{true, "native process crashed: " + line}
	}
	if err != nil {
		tail := out
		if len(tail) > 1500 {
			tail = tail[len(tail)-1500:]
		}
		return replayOutcome{false, err.Error() + ": " + tail}
	}
	r := res[0]
	if rc.Expect == "assert" {
		// the assertion may have failed before a later assumption cut the
		// native run short (inputs the model leaves open default to zero)
		for _, l := range failedLabels(r) {
			if l == rc.Label {
				return replayOutcome{true, "native assertion failure: " + l}
			}
		}
	}
	if r.AssumeFailed {
		return replayOutcome{false, "the model violates a harness assumption natively at " + r.AssumeAt}
	}
	switch rc.Expect {
	case "assert":
		for _, l := range failedLabels(r) {
			if l == rc.Label {
				return replayOutcome{true, "native assertion failure: " + l}
			}
		}
		if r.Panic != "" {
			return replayOutcome{false, "native run panicked instead: " + r.Panic}
		}
		return replayOutcome{false, "assertion " + rc.Label + " holds natively"}
	case "panic":
		if r.Panic != "" {
			return replayOutcome{true, "native panic: " + r.Panic}
		}
		return replayOutcome{false, "no panic natively"}
	case "deadlock", "hang":
		if r.Hang {
			return replayOutcome{true, "native run did not finish within its time limit"}
		}
		return replayOutcome{false, "native run finished"}
	}
	return replayOutcome{false, "unknown expectation " + rc.Expect}
}

func (p *Program) harnessPackage(name string) string {
	for path, pkg := range p.pkgs {
		if strings.HasPrefix(path, repoModule) && pkg.Func(name) != nil {
			return path
		}
	}
	return ""
}

func runReplayCmd(file, repoDir, verifDir string) int {
	p, err := loadProgram(repoDir, verifDir)
	if err != nil {
		fmt.Fprintln(os.Stderr, "gosym:", err)
		return 2
	}
	o := replayNative(p, file)
	fmt.Printf("replay %s: confirmed=%v %s\n", file, o.Confirmed, o.Detail)
	if o.Confirmed {
		return 1
	}
	return 0
}

// conformance replays sampled path models natively: on a path the engine
// explored to completion with every assertion discharged, the native build
// must reach the same assertions in the same order with the same outcome.
func conformance(p *Program, hs []*Harness, perHarness int, seed int64) (int, string) {
	rng := rand.New(rand.NewSource(seed))
	byPkg := map[string][]replayCase{}
	for _, h := range hs {
		samples := p.pathSamples[h.Name]
		rng.Shuffle(len(samples), func(i, j int) { samples[i], samples[j] = samples[j], samples[i] })
		if len(samples) > perHarness {
			samples = samples[:perHarness]
		}
		byPkg[h.Pkg] = append(byPkg[h.Pkg], samples...)
	}
	n := 0
	for pkg, cases := range byPkg {
		if len(cases) == 0 {
			continue
		}
		res, out, err := runNative(p, pkg, cases, 300*time.Second)
		if err != nil {
			tail := out
			if len(tail) > 2000 {
				tail = tail[len(tail)-2000:]
			}
			return n, err.Error() + "\n" + tail
		}
		for i, c := range cases {
			r := res[i]
			n++
			if r.AssumeFailed {
				return n, fmt.Sprintf("%s: path model violates an assumption natively (inputs %v params %v)", c.Harness, c.Inputs, c.Params)
			}
			var labels []string
			for _, a := range r.Asserts {
				labels = append(labels, fmt.Sprint(a[0]))
			}
			if fl := failedLabels(r); len(fl) > 0 {
				return n, fmt.Sprintf("%s: assertion %v fails natively on a path where the engine discharged it (inputs %v params %v)", c.Harness, fl, c.Inputs, c.Params)
			}
			switch c.Expect {
			case "ok":
				if r.Panic != "" || r.Hang {
					return n, fmt.Sprintf("%s: native run panicked/hung (%s) where the engine's path returned normally (inputs %v params %v)", c.Harness, r.Panic, c.Inputs, c.Params)
				}
				if strings.Join(labels, ",") != strings.Join(c.Trace, ",") {
					return n, fmt.Sprintf("%s: assertion trace differs: engine %v native %v (inputs %v params %v)", c.Harness, c.Trace, labels, c.Inputs, c.Params)
				}
			case "panic":
				if r.Panic == "" {
					return n, fmt.Sprintf("%s: engine path panics (%s) but the native run does not (inputs %v params %v)", c.Harness, c.Detail, c.Inputs, c.Params)
				}
			}
		}
	}
	return n, ""
}

// validateCRCModel checks the linear CRC model against the real
// crc24q.Hash, executed by the interpreter from the dependency's source.
func validateCRCModel(p *Program, seed int64) error {
	rng := rand.New(rand.NewSource(seed))
	// 1. unit-vector table against the native bitwise implementation
	st := NewStore()
	m := &Machine{w: &Worker{st: st}}
	for trial := 0; trial < 200; trial++ {
		n := 1 + rng.Intn(64)
		if trial%10 == 0 {
			n = 1 + rng.Intn(1029)
		}
		data := make([]byte, n)
		rng.Read(data)
		ts := make([]*Term, n)
		vars := map[string]uint64{}
		for i := range ts {
			if rng.Intn(2) == 0 {
				ts[i] = BV(uint64(data[i]), 8)
			} else {
				name := fmt.Sprintf("b%d", i)
				ts[i] = st.Var(name, KBV, 8)
				vars[name] = uint64(data[i])
			}
		}
		got := st.Eval(m.crcTerm(ts), vars, map[*Term]*Term{})
		if !got.IsConst() || uint32(got.c) != crc24qNative(data) {
			return fmt.Errorf("linear model disagrees with bitwise CRC-24Q on a %d-byte vector", n)
		}
	}
	// 2. the bitwise implementation against the dependency's Hash, interpreted
	return p.validateCRCAgainstSource(rng)
}
