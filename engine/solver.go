package main

// Solver driver: one long-lived solver process per worker, terms defined
// once with define-fun, queries under push/pop.

import (
	"bufio"
	"fmt"
	"io"
	"math/rand"
	"os"
	"os/exec"
	"strconv"
	"strings"
	"time"
)

type SolverStats struct {
	Queries   int
	Sat       int
	Unsat     int
	Unknown   int
	Errors    int
	Time      time.Duration
	Restarts  int
	MaxMs     int64
	Fallbacks int
}

type Solver struct {
	name      string
	argv      []string
	cmd       *exec.Cmd
	in        io.WriteCloser
	out       *bufio.Reader
	defined   map[int]bool
	declared  map[string]bool
	ndefs     int
	seq       int
	timeoutMs int
	intMode   bool // integer back end (intmode.go)
	ranges    map[int]intRange
	cur       *Term
	fallback  *Solver // bit-vector solver for queries the integer back end cannot express
	Stats     SolverStats
	log       io.Writer // optional transcript
}

// solverArgv returns the command line for a named back end.
func solverArgv(name string, timeoutMs int) []string {
	switch name {
	case "z3":
		return []string{"z3", "-in", fmt.Sprintf("-t:%d", timeoutMs)}
	case "z3-new":
		return []string{"z3-new", "-in", fmt.Sprintf("-t:%d", timeoutMs)}
	case "cvc5":
		return []string{"cvc5", "--incremental", "--produce-models", fmt.Sprintf("--tlimit-per=%d", timeoutMs)}
	case "z3-lia":
		return []string{"z3", "-in", fmt.Sprintf("-t:%d", timeoutMs)}
	case "z3-new-lia":
		return []string{"z3-new", "-in", fmt.Sprintf("-t:%d", timeoutMs)}
	case "cvc5-lia":
		return []string{"cvc5", "--incremental", "--produce-models", fmt.Sprintf("--tlimit-per=%d", timeoutMs)}
	case "cvc5-int":
		return []string{"cvc5", "--incremental", "--produce-models", "--solve-bv-as-int=sum", fmt.Sprintf("--tlimit-per=%d", timeoutMs)}
	}
	panic(engineError{"unknown solver " + name})
}

func NewSolver(name string, timeoutMs int) *Solver {
	s := &Solver{name: name, argv: solverArgv(name, timeoutMs), timeoutMs: timeoutMs, intMode: strings.HasSuffix(name, "-lia")}
	s.start()
	return s
}

func (s *Solver) start() {
	s.cmd = exec.Command(s.argv[0], s.argv[1:]...)
	in, err := s.cmd.StdinPipe()
	if err != nil {
		panic(engineError{err.Error()})
	}
	out, err := s.cmd.StdoutPipe()
	if err != nil {
		panic(engineError{err.Error()})
	}
	s.cmd.Stderr = s.cmd.Stdout
	if err := s.cmd.Start(); err != nil {
		panic(engineError{"cannot start solver " + s.argv[0] + ": " + err.Error()})
	}
	s.in = in
	s.out = bufio.NewReaderSize(out, 1<<20)
	s.defined = map[int]bool{}
	s.declared = map[string]bool{}
	s.ranges = map[int]intRange{}
	s.ndefs = 0
	if f := os.Getenv("GOSYM_SMTLOG"); f != "" && s.log == nil {
		s.log, _ = os.Create(fmt.Sprintf("%s.%d", f, os.Getpid()*100+rand.Intn(100)))
	}
	if strings.HasPrefix(s.name, "z3") {
		s.send("(set-option :produce-models true)\n")
	} else {
		s.send("(set-logic ALL)\n")
	}
}

func (s *Solver) Close() {
	if s.fallback != nil {
		s.fallback.Close()
		s.fallback = nil
	}
	if s.cmd != nil {
		s.in.Close()
		s.cmd.Process.Kill()
		s.cmd.Wait()
		s.cmd = nil
	}
}

func (s *Solver) restart() {
	s.Close()
	s.Stats.Restarts++
	s.start()
}

type solverDied struct{ why string }

func (s *Solver) send(txt string) {
	if s.log != nil {
		io.WriteString(s.log, txt)
	}
	if _, err := io.WriteString(s.in, txt); err != nil {
		panic(solverDied{"solver pipe: " + err.Error()})
	}
}

// define makes sure t and everything below it is known to the solver.
func (s *Solver) define(t *Term, sb *strings.Builder) {
	if t.op == OpConst {
		return
	}
	if t.op == OpVar {
		if !s.declared[t.name] {
			s.declared[t.name] = true
			if s.intMode {
				fmt.Fprintf(sb, "(declare-const %s %s)\n", t.ref(), intSort(t))
				if t.kind == KBV {
					fmt.Fprintf(sb, "(assert (and (<= 0 %s) (< %s %s)))\n", t.ref(), t.ref(), pow2(t.w))
				}
			} else {
				fmt.Fprintf(sb, "(declare-const %s %s)\n", t.ref(), sortStr(t.kind, t.w))
			}
		}
		return
	}
	if s.defined[t.id] {
		return
	}
	for _, a := range t.a {
		s.define(a, sb)
	}
	if s.intMode {
		body := s.intBody(t) // may panic intUnsupported: nothing recorded as defined
		s.defined[t.id] = true
		s.ndefs++
		fmt.Fprintf(sb, "(define-fun t%d () %s %s)\n", t.id, intSort(t), body)
		return
	}
	s.defined[t.id] = true
	s.ndefs++
	fmt.Fprintf(sb, "(define-fun t%d () %s %s)\n", t.id, sortStr(t.kind, t.w), t.body())
}

func collectVars(ts []*Term) []*Term {
	seen := map[*Term]bool{}
	var vars []*Term
	var rec func(*Term)
	rec = func(x *Term) {
		if x.op == OpConst || seen[x] {
			return
		}
		seen[x] = true
		if x.op == OpVar {
			vars = append(vars, x)
			return
		}
		for _, a := range x.a {
			rec(a)
		}
	}
	for _, t := range ts {
		rec(t)
	}
	return vars
}

// defineAllInt defines the assertions for the integer back end; a non-empty
// result names what cannot be expressed.
func (s *Solver) defineAllInt(asserts []*Term, sb *strings.Builder) (why string) {
	defer func() {
		if r := recover(); r != nil {
			if u, ok := r.(intUnsupported); ok {
				why = u.what
				if os.Getenv("GOSYM_DEBUG") != "" && s.cur != nil {
					d := s.cur.String()
					if len(d) > 700 {
						d = d[:700] + "..."
					}
					why += " IN " + d
				}
				return
			}
			panic(r)
		}
	}()
	for _, a := range asserts {
		s.cur = a
		s.define(a, sb)
	}
	return ""
}

// readUntilMarker reads solver output up to the echo marker.
func (s *Solver) readUntilMarker(marker string) []string {
	var lines []string
	for {
		line, err := s.out.ReadString('\n')
		if err != nil {
			panic(solverDied{fmt.Sprintf("%v (output so far: %v)", err, lines)})
		}
		line = strings.TrimSpace(line)
		if strings.Trim(line, "\"") == marker {
			return lines
		}
		if line != "" {
			lines = append(lines, line)
		}
	}
}

// Check decides the conjunction of the assertions.  Result is "sat",
// "unsat" or "unknown" (timeouts and solver errors are unknown).  With
// wantModel and sat, the values of all variables under the assertions are
// returned as raw bits.
func (s *Solver) Check(asserts []*Term, wantModel bool) (res string, model map[string]uint64) {
	// a solver process that dies (out of memory, crash) costs this query --
	// it is answered "unknown" -- and is replaced by a fresh process
	defer func() {
		if r := recover(); r != nil {
			if d, ok := r.(solverDied); ok {
				if s.Stats.Errors < 3 {
					fmt.Fprintf(logw, "solver %s died (%s): query not decided, solver restarted\n", s.name, d.why)
				}
				s.Stats.Errors++
				s.Stats.Queries++
				s.Stats.Unknown++
				s.restart()
				res, model = "unknown", nil
				return
			}
			panic(r)
		}
	}()
	return s.check(asserts, wantModel)
}

func (s *Solver) check(asserts []*Term, wantModel bool) (string, map[string]uint64) {
	if s.ndefs > 150000 {
		s.restart()
	}
	start := time.Now()
	var sb strings.Builder
	if s.intMode {
		if why := s.defineAllInt(asserts, &sb); why != "" {
			// definitions emitted so far stay valid; the query is not asked
			// of the integer back end but of a bit-vector solver instead
			s.send(sb.String())
			if s.fallback == nil {
				s.fallback = NewSolver("z3-new", s.timeoutMs)
			}
			s.Stats.Fallbacks++
			before := s.fallback.Stats
			res, model := s.fallback.Check(asserts, wantModel)
			after := s.fallback.Stats
			s.Stats.Queries += after.Queries - before.Queries
			s.Stats.Sat += after.Sat - before.Sat
			s.Stats.Unsat += after.Unsat - before.Unsat
			s.Stats.Unknown += after.Unknown - before.Unknown
			s.Stats.Time += after.Time - before.Time
			_ = why
			return res, model
		}
	} else {
		for _, a := range asserts {
			s.define(a, &sb)
		}
	}
	sb.WriteString("(push 1)\n")
	for _, a := range asserts {
		if s.intMode {
			fmt.Fprintf(&sb, "(assert %s)\n", intRef(a))
		} else {
			fmt.Fprintf(&sb, "(assert %s)\n", a.ref())
		}
	}
	s.seq++
	marker := fmt.Sprintf("done-%d", s.seq)
	fmt.Fprintf(&sb, "(check-sat)\n(echo \"%s\")\n", marker)
	s.send(sb.String())
	lines := s.readUntilMarker(marker)
	res := "unknown"
	errored := false
	for _, l := range lines {
		switch {
		case l == "sat" || l == "unsat" || l == "unknown":
			res = l
		case strings.HasPrefix(l, "(error"):
			errored = true
			if s.Stats.Errors < 3 {
				fmt.Fprintf(logw, "solver %s: %s\n", s.name, l)
			}
		case strings.Contains(l, "timeout") || strings.Contains(l, "interrupted"):
			res = "unknown"
		}
	}
	if errored {
		s.Stats.Errors++
		res = "unknown"
	}
	var model map[string]uint64
	if res == "sat" && wantModel {
		vars := collectVars(asserts)
		model = map[string]uint64{}
		if len(vars) > 0 {
			var q strings.Builder
			q.WriteString("(get-value (")
			for _, v := range vars {
				q.WriteString(v.ref()) // a variable's reference is its name in both back ends
				q.WriteByte(' ')
			}
			s.seq++
			m2 := fmt.Sprintf("done-%d", s.seq)
			fmt.Fprintf(&q, "))\n(echo \"%s\")\n", m2)
			s.send(q.String())
			out := strings.Join(s.readUntilMarker(m2), " ")
			parseModel(out, model)
		}
	}
	s.send("(pop 1)\n")
	d := time.Since(start)
	if s.log != nil {
		fmt.Fprintf(s.log, "; result=%s ms=%d\n", res, d.Milliseconds())
	}
	s.Stats.Queries++
	s.Stats.Time += d
	if ms := d.Milliseconds(); ms > s.Stats.MaxMs {
		s.Stats.MaxMs = ms
	}
	switch res {
	case "sat":
		s.Stats.Sat++
	case "unsat":
		s.Stats.Unsat++
	default:
		s.Stats.Unknown++
	}
	return res, model
}

// parseModel reads "((|a| #x01) (|b| true) ...)".
func parseModel(txt string, model map[string]uint64) {
	toks := tokenize(txt)
	// walk tokens: "(" name value ")" pairs inside an outer list
	i := 0
	depth := 0
	for i < len(toks) {
		t := toks[i]
		if t == "(" {
			depth++
			if depth == 2 && i+2 < len(toks) {
				name := unSmtName(strings.Trim(toks[i+1], "|"))
				j := i + 2
				// value may be an atom or a list
				if toks[j] == "(" {
					// collect the list
					d := 0
					var parts []string
					for ; j < len(toks); j++ {
						if toks[j] == "(" {
							d++
						} else if toks[j] == ")" {
							d--
						}
						parts = append(parts, toks[j])
						if d == 0 {
							break
						}
					}
					model[name] = parseValueList(parts)
					i = j + 1
					continue
				}
				model[name] = parseAtom(toks[j])
				i = j + 1
				continue
			}
		} else if t == ")" {
			depth--
		}
		i++
	}
}

func tokenize(txt string) []string {
	var toks []string
	i := 0
	for i < len(txt) {
		c := txt[i]
		switch {
		case c == '(' || c == ')':
			toks = append(toks, string(c))
			i++
		case c == ' ' || c == '\t' || c == '\n' || c == '\r':
			i++
		case c == '|':
			j := strings.IndexByte(txt[i+1:], '|')
			if j < 0 {
				j = len(txt) - i - 2
			}
			toks = append(toks, txt[i:i+j+2])
			i += j + 2
		default:
			j := i
			for j < len(txt) && !strings.ContainsRune("() \t\n\r", rune(txt[j])) {
				j++
			}
			toks = append(toks, txt[i:j])
			i = j
		}
	}
	return toks
}

func parseAtom(a string) uint64 {
	switch {
	case a == "true":
		return 1
	case a == "false":
		return 0
	case strings.HasPrefix(a, "#x"):
		v, _ := strconv.ParseUint(a[2:], 16, 64)
		return v
	case strings.HasPrefix(a, "#b"):
		v, _ := strconv.ParseUint(a[2:], 2, 64)
		return v
	}
	v, _ := strconv.ParseUint(a, 10, 64)
	return v
}

// parseValueList handles "(_ bv5 8)".
func parseValueList(p []string) uint64 {
	if len(p) >= 4 && p[1] == "_" && strings.HasPrefix(p[2], "bv") {
		v, _ := strconv.ParseUint(p[2][2:], 10, 64)
		return v
	}
	return 0
}
