package main

// Integer back end: the same terms, emitted over mathematical integers with
// the mod-2^w semantics made explicit.  A bit-vector term of width w is an
// Int in [0, 2^w) (its unsigned value).  Division and remainder by constants
// then stay inside linear integer arithmetic, which the solvers decide
// quickly, whereas bit-blasting a 64-bit divider or multiplier does not
// finish (DESIGN.md section 2.4, abstract time).  Anything that has no exact
// integer rendering here (bitwise operations on two symbolic operands,
// floating point, division by a symbolic value) makes the query "unknown".

import (
	"fmt"
	"math/big"
	"strings"
)

type intUnsupported struct{ what string }

func pow2(k int) string {
	return new(big.Int).Lsh(big.NewInt(1), uint(k)).String()
}

func intConst(t *Term) string {
	switch t.kind {
	case KBool:
		if t.c == 1 {
			return "true"
		}
		return "false"
	case KBV:
		return fmt.Sprintf("%d", t.c)
	}
	panic(intUnsupported{"floating-point constant"})
}

func intRef(t *Term) string {
	if t.op == OpConst {
		return intConst(t)
	}
	if t.op == OpVar {
		return t.ref()
	}
	return fmt.Sprintf("t%d", t.id)
}

func intSort(t *Term) string {
	switch t.kind {
	case KBool:
		return "Bool"
	case KBV:
		return "Int"
	}
	panic(intUnsupported{"floating-point term"})
}

// signedOf renders the signed value of a w-bit term.
func signedOf(ref string, w int) string {
	return fmt.Sprintf("(ite (>= %s %s) (- %s %s) %s)", ref, pow2(w-1), ref, pow2(w), ref)
}

func lowMask(c uint64) (int, bool) {
	// c == 2^k - 1 ?
	if c&(c+1) != 0 {
		return 0, false
	}
	k := 0
	for c != 0 {
		k++
		c >>= 1
	}
	return k, true
}

// intRange is an interval (as mathematical integers) that contains the
// unsigned value of a bit-vector term whatever the variables are.  Where the
// interval shows that an operation cannot wrap, the mod is left out of its
// integer rendering, which keeps the common case inside plain linear
// arithmetic.
type intRange struct{ lo, hi *big.Int }

func bigPow2(k int) *big.Int { return new(big.Int).Lsh(big.NewInt(1), uint(k)) }

func fullRange(w int) intRange {
	return intRange{big.NewInt(0), new(big.Int).Sub(bigPow2(w), big.NewInt(1))}
}

func (s *Solver) rangeOf(t *Term) intRange {
	if t.op == OpConst {
		v := new(big.Int).SetUint64(t.c)
		return intRange{v, v}
	}
	if r, ok := s.ranges[t.id]; ok {
		return r
	}
	if t.op == OpVar {
		return fullRange(t.w)
	}
	panic(engineError{"intmode: range of an undefined term"})
}

func lt(a, b *big.Int) bool { return a.Cmp(b) < 0 }
func le(a, b *big.Int) bool { return a.Cmp(b) <= 0 }

func minBig(a, b *big.Int) *big.Int {
	if lt(a, b) {
		return a
	}
	return b
}

// intBody renders a non-leaf term over the integers and records its range.
func (s *Solver) intBody(t *Term) string {
	r := func(i int) string { return intRef(t.a[i]) }
	rg := func(i int) intRange { return s.rangeOf(t.a[i]) }
	if t.kind == KBool {
		return s.intBoolBody(t)
	}
	if t.kind != KBV {
		panic(intUnsupported{"floating point"})
	}
	Mb := bigPow2(t.w)
	M := Mb.String()
	half := bigPow2(t.w - 1)
	out := fullRange(t.w)
	var txt string
	add := func(x, y *big.Int) *big.Int { return new(big.Int).Add(x, y) }
	sub := func(x, y *big.Int) *big.Int { return new(big.Int).Sub(x, y) }
	mul := func(x, y *big.Int) *big.Int { return new(big.Int).Mul(x, y) }
	switch t.op {
	case OpAdd:
		a, b := rg(0), rg(1)
		done := false
		// adding a "negative" constant: x + (2^w - c) = x - c when x >= c
		for i := 0; i < 2 && !done; i++ {
			if c := t.a[i]; c.IsConst() && c.c >= half.Uint64() && t.w == 64 || c.IsConst() && t.w < 64 && new(big.Int).SetUint64(c.c).Cmp(half) >= 0 {
				cp := sub(Mb, new(big.Int).SetUint64(c.c))
				o := rg(1 - i)
				if le(cp, o.lo) {
					txt = fmt.Sprintf("(- %s %s)", r(1-i), cp.String())
					out = intRange{sub(o.lo, cp), sub(o.hi, cp)}
					done = true
				}
			}
		}
		if !done {
			if lt(add(a.hi, b.hi), Mb) {
				txt = fmt.Sprintf("(+ %s %s)", r(0), r(1))
				out = intRange{add(a.lo, b.lo), add(a.hi, b.hi)}
			} else {
				txt = fmt.Sprintf("(mod (+ %s %s) %s)", r(0), r(1), M)
			}
		}
	case OpSub:
		a, b := rg(0), rg(1)
		if le(b.hi, a.lo) {
			txt = fmt.Sprintf("(- %s %s)", r(0), r(1))
			out = intRange{sub(a.lo, b.hi), sub(a.hi, b.lo)}
		} else {
			txt = fmt.Sprintf("(mod (- %s %s) %s)", r(0), r(1), M)
		}
	case OpMul:
		if !t.a[0].IsConst() && !t.a[1].IsConst() {
			panic(intUnsupported{"product of two symbolic values"})
		}
		a, b := rg(0), rg(1)
		if lt(mul(a.hi, b.hi), Mb) {
			txt = fmt.Sprintf("(* %s %s)", r(0), r(1))
			out = intRange{mul(a.lo, b.lo), mul(a.hi, b.hi)}
		} else {
			txt = fmt.Sprintf("(mod (* %s %s) %s)", r(0), r(1), M)
		}
	case OpUDiv, OpURem:
		b := t.a[1]
		if !b.IsConst() || b.c == 0 {
			panic(intUnsupported{"division by a symbolic value"})
		}
		a := rg(0)
		c := new(big.Int).SetUint64(b.c)
		if t.op == OpUDiv {
			txt = fmt.Sprintf("(div %s %s)", r(0), r(1))
			out = intRange{new(big.Int).Div(a.lo, c), new(big.Int).Div(a.hi, c)}
		} else {
			txt = fmt.Sprintf("(mod %s %s)", r(0), r(1))
			out = intRange{big.NewInt(0), minBig(a.hi, sub(c, big.NewInt(1)))}
		}
	case OpSDiv, OpSRem:
		b := t.a[1]
		if !b.IsConst() || sext64(b.c, b.w) <= 0 {
			panic(intUnsupported{"signed division by a non-constant or non-positive value"})
		}
		a := rg(0)
		c := big.NewInt(sext64(b.c, b.w))
		bs := c.String()
		if lt(a.hi, half) {
			// the dividend is never negative
			if t.op == OpSDiv {
				txt = fmt.Sprintf("(div %s %s)", r(0), bs)
				out = intRange{new(big.Int).Div(a.lo, c), new(big.Int).Div(a.hi, c)}
			} else {
				txt = fmt.Sprintf("(mod %s %s)", r(0), bs)
				out = intRange{big.NewInt(0), minBig(a.hi, sub(c, big.NewInt(1)))}
			}
			break
		}
		sa := signedOf(r(0), t.w)
		q := fmt.Sprintf("(let ((sa %s)) (ite (>= sa 0) (div sa %s) (- (div (- sa) %s))))", sa, bs, bs)
		if t.op == OpSDiv {
			txt = fmt.Sprintf("(mod %s %s)", q, M)
		} else {
			txt = fmt.Sprintf("(let ((sa2 %s)) (mod (- sa2 (* %s %s)) %s))", sa, bs, q, M)
		}
	case OpAnd:
		for i := 0; i < 2 && txt == ""; i++ {
			if c := t.a[i]; c.IsConst() {
				if k, ok := lowMask(c.c); ok {
					o := rg(1 - i)
					if lt(o.hi, bigPow2(k)) {
						txt = r(1 - i)
						out = o
					} else {
						txt = fmt.Sprintf("(mod %s %s)", r(1-i), pow2(k))
						out = intRange{big.NewInt(0), sub(bigPow2(k), big.NewInt(1))}
					}
				}
			}
		}
		if txt == "" {
			panic(intUnsupported{"bitwise and"})
		}
	case OpOr, OpXor:
		d := t.String()
		if len(d) > 300 {
			d = d[:300] + "..."
		}
		panic(intUnsupported{"bitwise or/xor: " + d})
	case OpBVNot:
		txt = fmt.Sprintf("(- %s %s)", sub(Mb, big.NewInt(1)).String(), r(0))
	case OpNeg:
		txt = fmt.Sprintf("(mod (- %s) %s)", r(0), M)
	case OpShl, OpLShr, OpAShr:
		c := t.a[1]
		if !c.IsConst() {
			panic(intUnsupported{"shift by a symbolic amount"})
		}
		k := int(c.c)
		if c.c >= uint64(t.w) {
			k = t.w
		}
		a := rg(0)
		p := bigPow2(k)
		switch t.op {
		case OpShl:
			if lt(mul(a.hi, p), Mb) {
				txt = fmt.Sprintf("(* %s %s)", r(0), p.String())
				out = intRange{mul(a.lo, p), mul(a.hi, p)}
			} else {
				txt = fmt.Sprintf("(mod (* %s %s) %s)", r(0), p.String(), M)
			}
		case OpLShr:
			txt = fmt.Sprintf("(div %s %s)", r(0), p.String())
			out = intRange{new(big.Int).Div(a.lo, p), new(big.Int).Div(a.hi, p)}
		default:
			if lt(a.hi, half) {
				txt = fmt.Sprintf("(div %s %s)", r(0), p.String())
				out = intRange{new(big.Int).Div(a.lo, p), new(big.Int).Div(a.hi, p)}
			} else {
				txt = fmt.Sprintf("(mod (div %s %s) %s)", signedOf(r(0), t.w), p.String(), M)
			}
		}
	case OpExtract:
		a := rg(0)
		w := t.p1 - t.p2 + 1
		if t.p2 == 0 && lt(a.hi, bigPow2(w)) {
			txt = r(0)
			out = a
		} else if lt(a.hi, bigPow2(t.p1+1)) {
			txt = fmt.Sprintf("(div %s %s)", r(0), pow2(t.p2))
			out = intRange{new(big.Int).Div(a.lo, bigPow2(t.p2)), new(big.Int).Div(a.hi, bigPow2(t.p2))}
		} else if t.p2 == 0 {
			txt = fmt.Sprintf("(mod %s %s)", r(0), pow2(w))
		} else {
			txt = fmt.Sprintf("(mod (div %s %s) %s)", r(0), pow2(t.p2), pow2(w))
		}
	case OpZExt:
		txt = r(0)
		out = rg(0)
	case OpSExt:
		a := rg(0)
		w0 := t.a[0].w
		if lt(a.hi, bigPow2(w0-1)) {
			txt = r(0)
			out = a
		} else {
			diff := sub(Mb, bigPow2(w0))
			txt = fmt.Sprintf("(ite (>= %s %s) (+ %s %s) %s)", r(0), pow2(w0-1), r(0), diff.String(), r(0))
		}
	case OpConcat:
		a, b := rg(0), rg(1)
		p := bigPow2(t.a[1].w)
		txt = fmt.Sprintf("(+ (* %s %s) %s)", r(0), p.String(), r(1))
		out = intRange{add(mul(a.lo, p), b.lo), add(mul(a.hi, p), b.hi)}
	case OpIte:
		a, b := rg(1), rg(2)
		txt = fmt.Sprintf("(ite %s %s %s)", r(0), r(1), r(2))
		out = intRange{minBig(a.lo, b.lo), a.hi}
		if lt(a.hi, b.hi) {
			out.hi = b.hi
		}
	default:
		panic(intUnsupported{fmt.Sprintf("operation %d", t.op)})
	}
	s.ranges[t.id] = out
	return txt
}

func (s *Solver) intBoolBody(t *Term) string {
	r := func(i int) string { return intRef(t.a[i]) }
	switch t.op {
	case OpIte:
		return fmt.Sprintf("(ite %s %s %s)", r(0), r(1), r(2))
	case OpEq:
		if t.a[0].kind == KFP {
			panic(intUnsupported{"floating point"})
		}
		return fmt.Sprintf("(= %s %s)", r(0), r(1))
	case OpULt:
		return fmt.Sprintf("(< %s %s)", r(0), r(1))
	case OpULe:
		return fmt.Sprintf("(<= %s %s)", r(0), r(1))
	case OpSLt, OpSLe:
		w := t.a[0].w
		op := "<"
		if t.op == OpSLe {
			op = "<="
		}
		half := bigPow2(w - 1)
		sg := func(i int) string {
			if lt(s.rangeOf(t.a[i]).hi, half) {
				return r(i)
			}
			return signedOf(r(i), w)
		}
		return fmt.Sprintf("(%s %s %s)", op, sg(0), sg(1))
	case OpNot:
		return fmt.Sprintf("(not %s)", r(0))
	case OpBAnd, OpBOr:
		name := "and"
		if t.op == OpBOr {
			name = "or"
		}
		var sb strings.Builder
		sb.WriteString("(" + name)
		for i := range t.a {
			sb.WriteByte(' ')
			sb.WriteString(r(i))
		}
		sb.WriteByte(')')
		return sb.String()
	}
	panic(intUnsupported{fmt.Sprintf("operation %d", t.op)})
}
