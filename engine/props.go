package main

// Per-property statements of bounds and assumptions that go into the
// evidence files.  The numbers are what the harness files under
// /verif/harness enumerate; they are restated here for the reader of the
// evidence, the harness source is authoritative.

var boundsText = map[string]string{}
var outsideText = map[string]string{}
var extraAssumptions = map[string][]string{}

var commonAssumptions = []string{
	"GOARCH amd64: int, uint and uintptr are 64 bits wide",
	"go/ssa (x/tools v0.29.0) translation of /repo's current source is faithful; the interpreter is validated on every run by replaying solver models of explored paths against the native build",
	"solver answers (z3 4.8.12 unless stated) are correct; any solver error line, unknown or timeout is reported as not decided, never as success",
	"slices grow by the interpreter's append policy, so code that depends on spare capacity aliasing after append is outside the model",
}

func assumptionsText(prop string) []string {
	out := append([]string(nil), commonAssumptions...)
	return append(out, extraAssumptions[prop]...)
}
