package main

import (
	"encoding/json"
	"fmt"
	"os"
	"path/filepath"
)

// Per-property statements of bounds and assumptions that go into the
// evidence files.  The numbers are what the harness files under
// /verif/harness enumerate; they are restated here for the reader of the
// evidence, the harness source is authoritative.

var boundsText = map[string]string{}
var outsideText = map[string]string{}
var extraAssumptions = map[string][]string{}

// exhaustiveProp: the whole input space of the property's value domain lies
// inside the bound (symbolic over every value of every field) -- reported as
// coverage.exhaustive, only when the run decided every obligation.
var exhaustiveProp = map[string]bool{}

// loadBounds reads /verif/harness/bounds.json: per property the bounds the
// harnesses enumerate, what lies outside them and the stubs/assumptions used.
func loadBounds(verifDir string) {
	data, err := os.ReadFile(filepath.Join(verifDir, "harness", "bounds.json"))
	if err != nil {
		return
	}
	var b map[string]struct {
		Bounds      map[string]string `json:"bounds"`
		Outside     string            `json:"outside"`
		Assumptions []string          `json:"assumptions"`
		Exhaustive  bool              `json:"exhaustive"`
	}
	if err := json.Unmarshal(data, &b); err != nil {
		fmt.Fprintln(os.Stderr, "harness/bounds.json:", err)
		os.Exit(2)
	}
	for id, e := range b {
		boundsText[id] = "quick: " + e.Bounds["quick"] + " | thorough: " + e.Bounds["thorough"]
		outsideText[id] = e.Outside
		extraAssumptions[id] = e.Assumptions
		exhaustiveProp[id] = e.Exhaustive
	}
}

var commonAssumptions = []string{
	"GOARCH amd64: int, uint and uintptr are 64 bits wide",
	"go/ssa (x/tools v0.29.0) translation of /repo's current source is faithful; the interpreter is validated on every run by replaying solver models of explored paths against the native build",
	"solver answers (the solvers are named in coverage.solvers) are correct; any solver error line, unknown or timeout is reported as not decided, never as success",
	"slices grow by the interpreter's append policy, so code that depends on spare capacity aliasing after append is outside the model",
}

func assumptionsText(prop string) []string {
	out := append([]string(nil), commonAssumptions...)
	return append(out, extraAssumptions[prop]...)
}
