package main

// Interpreter values.  The representation follows x/tools/go/ssa/interp
// (boxed values in an empty interface) with these differences: every bool,
// integer and float is a *Term (possibly symbolic); maps are association
// lists; channels are scheduler objects; time.Time is a boxed instant.
//
//   *Term               bool, ints, floats
//   string / *SymStr    strings (concrete / structured-symbolic)
//   *value              pointers
//   *symRef             pointer to slice element with symbolic index
//   []value             slices
//   array, structure    arrays, structs
//   iface               interfaces
//   *mapObj             maps
//   *chanObj            channels
//   *ssa.Function, *ssa.Builtin, *closure   functions
//   tuple               multiple results
//   timeVal             time.Time
//   *opaque             environment objects (locations, readers, files, ...)

import (
	"fmt"
	"go/types"
	"math"
	"strings"

	"golang.org/x/tools/go/ssa"
)

type value interface{}
type tuple []value
type array []value
type structure []value

type iface struct {
	t types.Type
	v value
}

type closure struct {
	Fn  *ssa.Function
	Env []value
}

type bad struct{}

type symRef struct {
	elems []value
	idx   *Term // 64-bit, assumed in range on this path
}

// timeVal is an instant: nanoseconds since the Unix epoch as a 64-bit term.
// The zero time.Time (year 1) does not fit; it is the sentinel minInt64.
type timeVal struct {
	ns  *Term
	loc string // "" = UTC; else the name of a zone of the tz database
}

var zeroTimeNs = uint64(1) << 63 // math.MinInt64

type opaque struct {
	kind string
	data interface{}
}

type mapObj struct {
	keyType types.Type
	keys    []value
	vals    []value
}

func isTimeType(t types.Type) bool {
	n, ok := types.Unalias(t).(*types.Named)
	if !ok {
		return false
	}
	o := n.Obj()
	return o.Pkg() != nil && o.Pkg().Path() == "time" && o.Name() == "Time"
}

func mustDeref(t types.Type) types.Type {
	if p, ok := t.Underlying().(*types.Pointer); ok {
		return p.Elem()
	}
	panic(engineError{fmt.Sprintf("mustDeref: %v is not a pointer", t)})
}

func basicWidth(k types.BasicKind) (w int, signed bool) {
	switch k {
	case types.Int, types.UntypedInt:
		return 64, true
	case types.Int8:
		return 8, true
	case types.Int16:
		return 16, true
	case types.Int32, types.UntypedRune:
		return 32, true
	case types.Int64:
		return 64, true
	case types.Uint, types.Uintptr:
		return 64, false
	case types.Uint8:
		return 8, false
	case types.Uint16:
		return 16, false
	case types.Uint32:
		return 32, false
	case types.Uint64:
		return 64, false
	}
	return 0, false
}

// intInfo returns width and signedness when t is an integer type.
func intInfo(t types.Type) (int, bool, bool) {
	b, ok := t.Underlying().(*types.Basic)
	if !ok {
		return 0, false, false
	}
	w, s := basicWidth(b.Kind())
	return w, s, w != 0
}

func isFloat(t types.Type) bool {
	b, ok := t.Underlying().(*types.Basic)
	return ok && (b.Kind() == types.Float64 || b.Kind() == types.Float32 || b.Kind() == types.UntypedFloat)
}

func isString(t types.Type) bool {
	b, ok := t.Underlying().(*types.Basic)
	return ok && b.Info()&types.IsString != 0
}

func zero(t types.Type) value {
	if isTimeType(t) {
		return timeVal{ns: BV(zeroTimeNs, 64)}
	}
	switch t := t.(type) {
	case *types.Basic:
		if t.Kind() == types.UntypedNil {
			panic(engineError{"untyped nil has no zero value"})
		}
		if t.Info()&types.IsUntyped != 0 {
			t = types.Default(t).(*types.Basic)
		}
		switch t.Kind() {
		case types.Bool:
			return tFalse
		case types.Float32, types.Float64:
			return FP(0)
		case types.String:
			return ""
		case types.UnsafePointer:
			return (*value)(nil)
		}
		if w, _ := basicWidth(t.Kind()); w != 0 {
			return BV(0, w)
		}
		panic(engineError{fmt.Sprintf("zero: unsupported basic type %v", t)})
	case *types.Pointer:
		return (*value)(nil)
	case *types.Array:
		a := make(array, t.Len())
		for i := range a {
			a[i] = zero(t.Elem())
		}
		return a
	case *types.Named:
		return zero(t.Underlying())
	case *types.Alias:
		return zero(types.Unalias(t))
	case *types.Interface:
		return iface{}
	case *types.Slice:
		return []value(nil)
	case *types.Struct:
		s := make(structure, t.NumFields())
		for i := range s {
			s[i] = zero(t.Field(i).Type())
		}
		return s
	case *types.Tuple:
		if t.Len() == 1 {
			return zero(t.At(0).Type())
		}
		s := make(tuple, t.Len())
		for i := range s {
			s[i] = zero(t.At(i).Type())
		}
		return s
	case *types.Chan:
		return (*chanObj)(nil)
	case *types.Map:
		return (*mapObj)(nil)
	case *types.Signature:
		return (*ssa.Function)(nil)
	}
	panic(engineError{fmt.Sprintf("zero: unexpected %T %v", t, t)})
}

// load returns a copy of the value of type T stored at addr.
func load(T types.Type, addr *value) value {
	if isTimeType(T) {
		return *addr
	}
	switch T := T.Underlying().(type) {
	case *types.Struct:
		v := (*addr).(structure)
		a := make(structure, len(v))
		for i := range a {
			a[i] = load(T.Field(i).Type(), &v[i])
		}
		return a
	case *types.Array:
		v := (*addr).(array)
		a := make(array, len(v))
		for i := range a {
			a[i] = load(T.Elem(), &v[i])
		}
		return a
	default:
		return *addr
	}
}

// store writes v of type T into *addr, keeping the identity of the
// aggregate cells (so interior pointers stay valid).
func store(T types.Type, addr *value, v value) {
	if isTimeType(T) {
		*addr = v
		return
	}
	switch T := T.Underlying().(type) {
	case *types.Struct:
		lhs := (*addr).(structure)
		rhs := v.(structure)
		for i := range lhs {
			store(T.Field(i).Type(), &lhs[i], rhs[i])
		}
	case *types.Array:
		lhs := (*addr).(array)
		rhs := v.(array)
		for i := range lhs {
			store(T.Elem(), &lhs[i], rhs[i])
		}
	default:
		*addr = v
	}
}

// copyVal makes an unaliased copy of an aggregate value (for channel sends,
// map inserts etc.).
func copyVal(v value) value {
	switch v := v.(type) {
	case structure:
		a := make(structure, len(v))
		for i := range v {
			a[i] = copyVal(v[i])
		}
		return a
	case array:
		a := make(array, len(v))
		for i := range v {
			a[i] = copyVal(v[i])
		}
		return a
	}
	return v
}

// ---------------------------------------------------------------- equality

// eqValue returns a boolean term saying whether x and y, of static type t,
// are equal.
func (m *Machine) eqValue(t types.Type, x, y value) *Term {
	st := m.st()
	switch x := x.(type) {
	case *Term:
		return st.Eq(x, y.(*Term))
	case string, *SymStr:
		return m.strEq(x, y)
	case *value:
		switch y := y.(type) {
		case *value:
			return Bool(x == y)
		case *symRef:
			return Bool(false)
		}
	case *symRef:
		if y2, ok := y.(*symRef); ok && len(x.elems) > 0 && len(y2.elems) > 0 && &x.elems[0] == &y2.elems[0] {
			return st.Eq(x.idx, y2.idx)
		}
		return tFalse
	case *chanObj:
		return Bool(x == y.(*chanObj))
	case *opaque:
		yo, ok := y.(*opaque)
		return Bool(ok && x == yo)
	case timeVal:
		// == on time.Time compares wall/ext/loc; the model compares instants.
		return st.Eq(x.ns, y.(timeVal).ns)
	case structure:
		ys := y.(structure)
		ts := t.Underlying().(*types.Struct)
		r := tTrue
		for i := range x {
			if f := ts.Field(i); f.Name() != "_" {
				r = st.And(r, m.eqValue(f.Type(), x[i], ys[i]))
			}
		}
		return r
	case array:
		ya := y.(array)
		te := t.Underlying().(*types.Array).Elem()
		r := tTrue
		for i := range x {
			r = st.And(r, m.eqValue(te, x[i], ya[i]))
		}
		return r
	case iface:
		yi := y.(iface)
		if x.t == nil || yi.t == nil {
			return Bool(x.t == nil && yi.t == nil)
		}
		if !types.Identical(x.t, yi.t) {
			return tFalse
		}
		return m.eqValue(x.t, x.v, yi.v)
	case *ssa.Function:
		if yf, ok := y.(*ssa.Function); ok {
			return Bool(x == yf)
		}
		return tFalse
	}
	panic(targetPanic{v: rtErr(fmt.Sprintf("comparing uncomparable type %s (%T)", t, x))})
}

func isNilValue(x value) bool {
	switch x := x.(type) {
	case *value:
		return x == nil
	case []value:
		return x == nil
	case *mapObj:
		return x == nil
	case *chanObj:
		return x == nil
	case iface:
		return x.t == nil
	case *ssa.Function:
		return x == nil
	case *closure:
		return x == nil
	case *ssa.Builtin:
		return x == nil
	case *opaque:
		return x == nil
	case *symRef:
		return false
	}
	panic(engineError{fmt.Sprintf("isNilValue: %T", x)})
}

// ---------------------------------------------------------------- printing

func (m *Machine) show(v value) string {
	var sb strings.Builder
	m.writeValue(&sb, v, 0)
	return sb.String()
}

func (m *Machine) writeValue(sb *strings.Builder, v value, depth int) {
	if depth > 4 {
		sb.WriteString("…")
		return
	}
	switch v := v.(type) {
	case nil:
		sb.WriteString("<nil>")
	case *Term:
		if v.IsConst() {
			switch v.kind {
			case KBool:
				fmt.Fprintf(sb, "%v", v.c == 1)
			case KBV:
				fmt.Fprintf(sb, "%d", v.c)
			default:
				fmt.Fprintf(sb, "%v", math.Float64frombits(v.c))
			}
		} else {
			sb.WriteString(v.String())
		}
	case string:
		fmt.Fprintf(sb, "%q", v)
	case *SymStr:
		sb.WriteString(v.String())
	case *value:
		if v == nil {
			sb.WriteString("nil")
		} else {
			sb.WriteString("&")
			m.writeValue(sb, *v, depth+1)
		}
	case []value:
		sb.WriteString("[")
		for i, e := range v {
			if i > 0 {
				sb.WriteString(" ")
			}
			if i > 40 {
				sb.WriteString("…")
				break
			}
			m.writeValue(sb, e, depth+1)
		}
		sb.WriteString("]")
	case array:
		m.writeValue(sb, []value(v), depth)
	case structure:
		sb.WriteString("{")
		for i, e := range v {
			if i > 0 {
				sb.WriteString(" ")
			}
			m.writeValue(sb, e, depth+1)
		}
		sb.WriteString("}")
	case tuple:
		m.writeValue(sb, []value(v), depth)
	case iface:
		if v.t == nil {
			sb.WriteString("nil")
		} else {
			fmt.Fprintf(sb, "(%s)", v.t)
			m.writeValue(sb, v.v, depth+1)
		}
	case timeVal:
		sb.WriteString("time(")
		m.writeValue(sb, v.ns, depth+1)
		sb.WriteString(")")
	default:
		fmt.Fprintf(sb, "<%T>", v)
	}
}
