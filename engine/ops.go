package main

import (
	"fmt"
	"go/constant"
	"go/token"
	"go/types"
	"strings"
	"unicode/utf8"
	"unsafe"

	"golang.org/x/tools/go/ssa"
)

func constValue(c *ssa.Const) value {
	if c.Value == nil {
		return zero(c.Type())
	}
	if t, ok := c.Type().Underlying().(*types.Basic); ok {
		switch t.Kind() {
		case types.Bool, types.UntypedBool:
			return Bool(constant.BoolVal(c.Value))
		case types.Float32, types.Float64, types.UntypedFloat:
			return FP(c.Float64())
		case types.String, types.UntypedString:
			if c.Value.Kind() == constant.String {
				return constant.StringVal(c.Value)
			}
			return string(rune(c.Int64()))
		}
		if w, signed := basicWidth(t.Kind()); w != 0 {
			if signed {
				return BV(uint64(c.Int64()), w)
			}
			return BV(c.Uint64(), w)
		}
	}
	panic(engineError{fmt.Sprintf("constValue: %s", c)})
}

// shiftAmount converts a shift count of any width to the operand width,
// saturating at the width (Go: shifting by >= width gives 0 or sign fill).
func (m *Machine) shiftAmount(y *Term, w int) *Term {
	st := m.st()
	if y.w == w {
		return y
	}
	if y.w < w {
		return st.ZExt(y, w)
	}
	big := st.ULe(BV(uint64(w), y.w), y)
	return st.Ite(big, BV(uint64(w), w), st.Extract(y, w-1, 0))
}

func (fr *frame) binop(op token.Token, tx, ty types.Type, x, y value) value {
	m := fr.m
	st := m.st()
	switch op {
	case token.EQL:
		if isNilConstType(tx) || isNilConstType(ty) {
			return Bool(isNilValue(x) && isNilValue(y))
		}
		return m.eqNilAware(tx, x, y)
	case token.NEQ:
		return st.Not(m.eqNilAware(tx, x, y))
	}
	// strings
	if isString(tx) {
		switch op {
		case token.ADD:
			return concatStr(x, y)
		case token.LSS, token.LEQ, token.GTR, token.GEQ:
			xs, ok1 := x.(string)
			ys, ok2 := y.(string)
			if !ok1 || !ok2 {
				panic(pathAbort{"ordering comparison of symbolic strings"})
			}
			switch op {
			case token.LSS:
				return Bool(xs < ys)
			case token.LEQ:
				return Bool(xs <= ys)
			case token.GTR:
				return Bool(xs > ys)
			default:
				return Bool(xs >= ys)
			}
		}
	}
	xt, ok1 := x.(*Term)
	yt, ok2 := y.(*Term)
	if !ok1 || !ok2 {
		panic(engineError{fmt.Sprintf("binop %s on %T, %T", op, x, y)})
	}
	if xt.kind == KBool {
		// only == and != reach here for bools, handled above
		panic(engineError{"bool binop " + op.String()})
	}
	if xt.kind == KFP {
		switch op {
		case token.ADD:
			return st.fbin(OpFAdd, xt, yt)
		case token.SUB:
			return st.fbin(OpFSub, xt, yt)
		case token.MUL:
			return st.fbin(OpFMul, xt, yt)
		case token.QUO:
			return st.fbin(OpFDiv, xt, yt)
		case token.LSS:
			return st.fcmp(OpFLt, xt, yt)
		case token.LEQ:
			return st.fcmp(OpFLe, xt, yt)
		case token.GTR:
			return st.fcmp(OpFLt, yt, xt)
		case token.GEQ:
			return st.fcmp(OpFLe, yt, xt)
		}
		panic(engineError{"float binop " + op.String()})
	}
	_, signed, _ := intInfo(tx)
	switch op {
	case token.ADD:
		return st.Add(xt, yt)
	case token.SUB:
		return st.Sub(xt, yt)
	case token.MUL:
		return st.Mul(xt, yt)
	case token.QUO, token.REM:
		if !m.branch(st.Not(st.Eq(yt, BV(0, yt.w)))) {
			fr.tpanic("integer divide by zero")
		}
		if op == token.QUO {
			if signed {
				return st.bin(OpSDiv, xt, yt)
			}
			return st.bin(OpUDiv, xt, yt)
		}
		if signed {
			return st.bin(OpSRem, xt, yt)
		}
		return st.bin(OpURem, xt, yt)
	case token.AND:
		return st.BAnd(xt, yt)
	case token.OR:
		return st.BOr(xt, yt)
	case token.XOR:
		return st.BXor(xt, yt)
	case token.AND_NOT:
		return st.BAnd(xt, st.BVNot(yt))
	case token.SHL, token.SHR:
		_, ysigned, _ := intInfo(ty)
		if ysigned {
			if !m.branch(st.SLe(BV(0, yt.w), yt)) {
				fr.tpanic("negative shift amount")
			}
		}
		amt := m.shiftAmount(yt, xt.w)
		if op == token.SHL {
			return st.bin(OpShl, xt, amt)
		}
		if signed {
			return st.bin(OpAShr, xt, amt)
		}
		return st.bin(OpLShr, xt, amt)
	case token.LSS:
		if signed {
			return st.SLt(xt, yt)
		}
		return st.ULt(xt, yt)
	case token.LEQ:
		if signed {
			return st.SLe(xt, yt)
		}
		return st.ULe(xt, yt)
	case token.GTR:
		if signed {
			return st.SLt(yt, xt)
		}
		return st.ULt(yt, xt)
	case token.GEQ:
		if signed {
			return st.SLe(yt, xt)
		}
		return st.ULe(yt, xt)
	}
	panic(engineError{"binop " + op.String()})
}

func isNilConstType(t types.Type) bool {
	b, ok := t.(*types.Basic)
	return ok && b.Kind() == types.UntypedNil
}

// eqNilAware compares, treating slices/maps/funcs (comparable only to nil).
func (m *Machine) eqNilAware(t types.Type, x, y value) *Term {
	switch t.Underlying().(type) {
	case *types.Slice, *types.Map, *types.Signature:
		return Bool(isNilValue(x) && isNilValue(y))
	case *types.Chan:
		xc, _ := x.(*chanObj)
		yc, _ := y.(*chanObj)
		return Bool(xc == yc)
	case *types.Pointer:
		if xo, ok := x.(*opaque); ok {
			yo, _ := y.(*opaque)
			return Bool(xo == yo)
		}
		if _, ok := y.(*opaque); ok {
			return tFalse
		}
	}
	return m.eqValue(t, x, y)
}

func (fr *frame) unop(instr *ssa.UnOp, x value) value {
	m := fr.m
	st := m.st()
	switch instr.Op {
	case token.ARROW:
		m.noSpec("receive")
		ch, _ := x.(*chanObj)
		elem := instr.X.Type().Underlying().(*types.Chan).Elem()
		v, ok := m.sched.recv(fr.g, ch, elem)
		if !instr.CommaOk {
			return v
		}
		return tuple{v, Bool(ok)}
	case token.MUL:
		return fr.loadPtr(mustDeref(instr.X.Type()), x)
	case token.SUB:
		t := x.(*Term)
		if t.kind == KFP {
			return st.FNeg(t)
		}
		return st.Neg(t)
	case token.NOT:
		return st.Not(x.(*Term))
	case token.XOR:
		return st.BVNot(x.(*Term))
	}
	panic(engineError{fmt.Sprintf("unop %v", instr)})
}

func (fr *frame) conv(tDst, tSrc types.Type, x value) value {
	m := fr.m
	st := m.st()
	ud := tDst.Underlying()
	us := tSrc.Underlying()
	switch ud := ud.(type) {
	case *types.Pointer, *types.Signature, *types.Chan, *types.Map, *types.Struct, *types.Interface, *types.Array:
		return x
	case *types.Slice:
		// string -> []byte / []rune
		if isString(us) {
			eb, _ := ud.Elem().Underlying().(*types.Basic)
			if eb != nil && eb.Kind() == types.Uint8 {
				return strToBytes(x)
			}
			if s, ok := x.(string); ok && eb != nil && eb.Kind() == types.Int32 {
				var r []value
				for _, c := range s {
					r = append(r, BV(uint64(c), 32))
				}
				return r
			}
			panic(pathAbort{"conversion of symbolic string to []rune"})
		}
		return x
	case *types.Basic:
		if isTimeType(tDst) {
			return x
		}
		// -> string
		if ud.Info()&types.IsString != 0 {
			switch x := x.(type) {
			case string, *SymStr:
				return x
			case []value:
				if sl, ok := us.(*types.Slice); ok {
					if eb, _ := sl.Elem().Underlying().(*types.Basic); eb != nil && eb.Kind() == types.Int32 {
						var sb strings.Builder
						for _, r := range x {
							rt := r.(*Term)
							if !rt.IsConst() {
								panic(pathAbort{"symbolic rune to string"})
							}
							sb.WriteRune(rune(rt.c))
						}
						return sb.String()
					}
				}
				return bytesToStr(x)
			case *Term:
				if x.IsConst() {
					var buf [utf8.UTFMax]byte
					n := utf8.EncodeRune(buf[:], rune(sext64(x.c, x.w)))
					return string(buf[:n])
				}
				panic(pathAbort{"symbolic integer to string conversion"})
			}
			panic(engineError{fmt.Sprintf("conv to string from %T", x)})
		}
		xt, ok := x.(*Term)
		if !ok {
			panic(engineError{fmt.Sprintf("conv %v -> %v of %T", tSrc, tDst, x)})
		}
		if ud.Info()&types.IsBoolean != 0 {
			return xt
		}
		dw, _, dint := intInfo(tDst)
		_, ssigned, sint := intInfo(tSrc)
		switch {
		case dint && sint:
			if dw <= xt.w {
				return st.Extract(xt, dw-1, 0)
			}
			if ssigned {
				return st.SExt(xt, dw)
			}
			return st.ZExt(xt, dw)
		case dint && isFloat(tSrc):
			_, dsigned, _ := intInfo(tDst)
			return st.FToInt(xt, dw, dsigned)
		case isFloat(tDst) && sint:
			if b := ud; b.Kind() == types.Float32 {
				panic(pathAbort{"float32 arithmetic"})
			}
			return st.FFromInt(xt, ssigned)
		case isFloat(tDst) && isFloat(tSrc):
			return xt
		}
		if ud.Kind() == types.UnsafePointer {
			panic(pathAbort{"unsafe.Pointer conversion"})
		}
	}
	panic(engineError{fmt.Sprintf("unsupported conversion %v -> %v", tSrc, tDst)})
}

func (fr *frame) slice(instr *ssa.Slice, x, lo, hi, max value) value {
	fr.m.res.Implicit++
	m := fr.m
	var n, c int
	var elems []value
	switch x := x.(type) {
	case string:
		n, c = len(x), len(x)
	case *SymStr:
		l, ok := x.length()
		if !ok {
			panic(pathAbort{"slicing a string of unknown length"})
		}
		n, c = l, l
	case []value:
		elems = x
		n, c = len(x), cap(x)
	case *value:
		if x == nil {
			fr.tpanic("invalid memory address or nil pointer dereference")
		}
		elems = (*x).(array)
		n, c = len(elems), len(elems)
	default:
		panic(engineError{fmt.Sprintf("slice: unexpected X type: %T", x)})
	}
	get := func(v value, def int, what string) int {
		if v == nil {
			return def
		}
		t := v.(*Term)
		if t.IsConst() {
			return int(sext64(t.c, t.w))
		}
		// feasible values only matter inside [0, c]; an out-of-range bound panics
		st := m.st()
		t64 := t
		if t.w < 64 {
			t64 = st.ZExt(t, 64)
		}
		if !m.branch(st.ULe(t64, BV(uint64(c), 64))) {
			fr.tpanic("slice bounds out of range [symbolic " + what + "] with capacity " + fmt.Sprint(c))
		}
		return int(m.concretize(t, "slice "+what))
	}
	l := get(lo, 0, "low")
	h := get(hi, n, "high")
	mx := get(max, c, "max")
	switch x := x.(type) {
	case string:
		if l < 0 || h < l || h > n {
			fr.tpanic(fmt.Sprintf("slice bounds out of range [%d:%d] with length %d", l, h, n))
		}
		return x[l:h]
	case *SymStr:
		if l < 0 || h < l || h > n {
			fr.tpanic(fmt.Sprintf("slice bounds out of range [%d:%d] with length %d", l, h, n))
		}
		return x.substr(l, h)
	}
	if l < 0 || h < l || mx < h || mx > c {
		if h > c || mx > c {
			fr.tpanic(fmt.Sprintf("slice bounds out of range [:%d] with capacity %d", h, c))
		}
		fr.tpanic(fmt.Sprintf("slice bounds out of range [%d:%d]", l, h))
	}
	if elems == nil {
		// nil slice: [0:0] stays nil
		return []value(nil)
	}
	return elems[l:h:mx]
}

// ---------------------------------------------------------------- maps

func (fr *frame) mapFind(mo *mapObj, key value) (idx int, found bool) {
	m := fr.m
	if mo == nil {
		return -1, false
	}
	for i, k := range mo.keys {
		eq := m.eqValue(mo.keyType, k, key)
		if m.branch(eq) {
			return i, true
		}
	}
	return -1, false
}

func (fr *frame) mapInsert(mo *mapObj, key, v value) {
	fr.guardCheck(mo, true)
	if i, ok := fr.mapFind(mo, key); ok {
		mo.vals[i] = v
		return
	}
	mo.keys = append(mo.keys, copyVal(key))
	mo.vals = append(mo.vals, v)
}

func (fr *frame) mapDelete(mo *mapObj, key value) {
	fr.guardCheck(mo, true)
	if i, ok := fr.mapFind(mo, key); ok {
		mo.keys = append(mo.keys[:i:i], mo.keys[i+1:]...)
		mo.vals = append(mo.vals[:i:i], mo.vals[i+1:]...)
	}
}

func (fr *frame) lookup(instr *ssa.Lookup, x, idx value) value {
	m := fr.m
	st := m.st()
	mo, _ := x.(*mapObj)
	if mo != nil {
		fr.guardCheck(mo, false)
	}
	mt := instr.X.Type().Underlying().(*types.Map)
	// Fast, fork-free path: symbolic key and every stored value identical
	// (the membership-set idiom map[K]interface{}{k: nil}).
	if kt, ok := idx.(*Term); ok && !kt.IsConst() && mo != nil && len(mo.keys) > 0 && instr.CommaOk {
		same := true
		for _, v := range mo.vals {
			if i, ok := v.(iface); !ok || i.t != nil {
				same = false
				break
			}
		}
		if same {
			present := tFalse
			for _, k := range mo.keys {
				present = st.Or(present, st.Eq(k.(*Term), kt))
			}
			return tuple{iface{}, present}
		}
	}
	i, found := fr.mapFind(mo, idx)
	var v value
	if found {
		v = copyVal(mo.vals[i])
	} else {
		v = zero(mt.Elem())
	}
	if instr.CommaOk {
		return tuple{v, Bool(found)}
	}
	return v
}

// ---------------------------------------------------------------- type assertions

func (fr *frame) typeAssert(instr *ssa.TypeAssert, itf iface) value {
	fr.m.res.Implicit++
	var v value
	err := ""
	if itf.t == nil {
		err = fmt.Sprintf("interface conversion: interface is nil, not %s", instr.AssertedType)
	} else if idst, ok := instr.AssertedType.Underlying().(*types.Interface); ok {
		v = itf
		if meth, _ := types.MissingMethod(itf.t, idst, true); meth != nil {
			err = fmt.Sprintf("interface conversion: %v is not %v: missing method %s", itf.t, idst, meth.Name())
		}
	} else if types.Identical(itf.t, instr.AssertedType) {
		v = itf.v
	} else {
		err = fmt.Sprintf("interface conversion: interface is %s, not %s", itf.t, instr.AssertedType)
	}
	if err != "" {
		if !instr.CommaOk {
			fr.tpanic(err)
		}
		return tuple{zero(instr.AssertedType), tFalse}
	}
	if instr.CommaOk {
		return tuple{v, tTrue}
	}
	return v
}

// ---------------------------------------------------------------- builtins

func (fr *frame) callBuiltin(callpos token.Pos, fn *ssa.Builtin, args []value) value {
	m := fr.m
	if m.spec > 0 {
		switch fn.Name() {
		case "len", "cap", "min", "max", "ssa:wrapnilchk":
		default:
			panic(specAbort{"builtin " + fn.Name()})
		}
	}
	switch fn.Name() {
	case "append":
		if len(args) == 1 {
			return args[0]
		}
		a0, _ := args[0].([]value)
		switch s := args[1].(type) {
		case string:
			for i := 0; i < len(s); i++ {
				a0 = append(a0, BV(uint64(s[i]), 8))
			}
			return a0
		case *SymStr:
			return append(a0, strToBytes(s)...)
		}
		src := args[1].([]value)
		marked := fr.m.capUnknown[unsafe.SliceData(a0)]
		for _, e := range src {
			a0 = append(a0, copyVal(e))
		}
		if a0 == nil && src != nil {
			a0 = []value{}
		}
		if marked {
			// grown from a slice whose real capacity is not modelled
			fr.m.capUnknown[unsafe.SliceData(a0)] = true
		}
		return a0

	case "copy":
		dst, _ := args[0].([]value)
		var src []value
		switch s := args[1].(type) {
		case []value:
			src = s
		default:
			src = strToBytes(s)
		}
		n := len(dst)
		if len(src) < n {
			n = len(src)
		}
		tmp := make([]value, n)
		for i := 0; i < n; i++ {
			tmp[i] = copyVal(src[i])
		}
		copy(dst, tmp)
		return BV(uint64(n), 64)

	case "close":
		ch, _ := args[0].(*chanObj)
		m.sched.closeChan(fr.g, ch)
		return nil

	case "delete":
		mo, _ := args[0].(*mapObj)
		if mo != nil {
			fr.mapDelete(mo, args[1])
		}
		return nil

	case "print", "println":
		return nil

	case "len":
		switch x := args[0].(type) {
		case string:
			return BV(uint64(len(x)), 64)
		case *SymStr:
			return m.strLen(x)
		case array:
			return BV(uint64(len(x)), 64)
		case *value:
			return BV(uint64(len((*x).(array))), 64)
		case []value:
			return BV(uint64(len(x)), 64)
		case *mapObj:
			if x == nil {
				return BV(0, 64)
			}
			fr.guardCheck(x, false)
			return BV(uint64(len(x.keys)), 64)
		case *chanObj:
			if x == nil {
				return BV(0, 64)
			}
			return BV(uint64(len(x.buf)), 64)
		}
		panic(engineError{fmt.Sprintf("len: illegal operand: %T", args[0])})

	case "cap":
		switch x := args[0].(type) {
		case array:
			return BV(uint64(len(x)), 64)
		case *value:
			return BV(uint64(len((*x).(array))), 64)
		case []value:
			if fr.m.capUnknown[unsafe.SliceData(x)] {
				panic(pathAbort{"cap() of a slice made with a symbolic capacity at " + fr.pos()})
			}
			return BV(uint64(cap(x)), 64)
		case *chanObj:
			if x == nil {
				return BV(0, 64)
			}
			return BV(uint64(x.cap), 64)
		}
		panic(engineError{fmt.Sprintf("cap: illegal operand: %T", args[0])})

	case "min", "max":
		r := args[0].(*Term)
		sig := fn.Type().(*types.Signature)
		_, signed, _ := intInfo(sig.Params().At(0).Type())
		st := m.st()
		for _, a := range args[1:] {
			at := a.(*Term)
			var lt *Term
			if at.kind == KFP {
				lt = st.fcmp(OpFLt, at, r)
			} else if signed {
				lt = st.SLt(at, r)
			} else {
				lt = st.ULt(at, r)
			}
			if fn.Name() == "max" {
				lt = st.Not(lt)
			}
			r = st.Ite(lt, at, r)
		}
		return r

	case "panic":
		panic(targetPanic{v: args[0], pos: fr.pos()})

	case "recover":
		return fr.doRecover()

	case "ssa:wrapnilchk":
		recv := args[0]
		if p, ok := recv.(*value); ok && p == nil {
			fr.tpanic(fmt.Sprintf("value method (%v).%v called using nil pointer", m.show(args[1]), m.show(args[2])))
		}
		return recv
	}
	panic(pathAbort{"unknown built-in: " + fn.Name()})
}

// ---------------------------------------------------------------- iterators

type iter interface{ next() tuple }

type mapIter struct {
	keys, vals []value
	i          int
	rev        bool
}

func (it *mapIter) next() tuple {
	if it.i >= len(it.keys) {
		return tuple{tFalse, nil, nil}
	}
	j := it.i
	if it.rev {
		j = len(it.keys) - 1 - it.i
	}
	it.i++
	return tuple{tTrue, it.keys[j], copyVal(it.vals[j])}
}

type stringIter struct {
	s string
	i int
}

func (it *stringIter) next() tuple {
	if it.i >= len(it.s) {
		return tuple{tFalse, BV(0, 64), BV(0, 32)}
	}
	r, n := utf8.DecodeRuneInString(it.s[it.i:])
	t := tuple{tTrue, BV(uint64(it.i), 64), BV(uint64(r), 32)}
	it.i += n
	return t
}

func (fr *frame) rangeIter(x value, t types.Type) iter {
	switch x := x.(type) {
	case *mapObj:
		if x == nil {
			return &mapIter{}
		}
		fr.guardCheck(x, false)
		it := &mapIter{keys: append([]value(nil), x.keys...), vals: append([]value(nil), x.vals...)}
		if fr.m.mapOrder && len(x.keys) > 1 {
			it.rev = fr.m.choose(2) == 1
		}
		return it
	case string:
		return &stringIter{s: x}
	case *SymStr:
		panic(pathAbort{"range over symbolic string"})
	}
	panic(engineError{fmt.Sprintf("cannot range over %T", x)})
}
