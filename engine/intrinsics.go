package main

// Harness intrinsics: functions named verif* declared (with native bodies
// for replay) in harness/_shared/intrinsics.go.txt.

import (
	"fmt"
	"go/types"
	"os"
	"strings"
)

var intrinsics map[string]interceptFn

func init() {
	intrinsics = map[string]interceptFn{
		"verifU8":   inInput(8),
		"verifU16":  inInput(16),
		"verifU32":  inInput(32),
		"verifU64":  inInput(64),
		"verifInt":  inInput(64),
		"verifUint": inInput(64),
		"verifBool": inBool,
		"verifBytes": func(fr *frame, args []value) value {
			name := args[0].(string)
			n := int(fr.m.asInt(args[1], "verifBytes length"))
			out := make([]value, n)
			for i := range out {
				out[i] = fr.m.input(fmt.Sprintf("%s[%d]", name, i), 8)
			}
			return out
		},
		"verifParam": func(fr *frame, args []value) value {
			m := fr.m
			name := args[0].(string)
			lo := int(m.asInt(args[1], "param lo"))
			hi := int(m.asInt(args[2], "param hi"))
			if hi < lo {
				panic(pathDead{"empty parameter range"})
			}
			v := lo + m.choose(hi-lo+1)
			m.params[name] = int64(v)
			return BV(uint64(int64(v)), 64)
		},
		"verifTier": func(fr *frame, args []value) value { return BV(uint64(fr.m.p.tier), 64) },
		"verifAssume": func(fr *frame, args []value) value {
			fr.m.addPC(args[0].(*Term))
			return nil
		},
		"verifAssert": func(fr *frame, args []value) value {
			label := args[0].(string)
			pos := ""
			if fr.caller != nil {
				pos = fr.caller.pos()
			}
			fr.m.checkAssert(label, args[1].(*Term), pos)
			return nil
		},
		"verifAnd": func(fr *frame, args []value) value { return fr.m.st().And(args[0].(*Term), args[1].(*Term)) },
		"verifOr":  func(fr *frame, args []value) value { return fr.m.st().Or(args[0].(*Term), args[1].(*Term)) },
		"verifImplies": func(fr *frame, args []value) value {
			st := fr.m.st()
			return st.Or(st.Not(args[0].(*Term)), args[1].(*Term))
		},
		"verifIteU64": func(fr *frame, args []value) value {
			return fr.m.st().Ite(args[0].(*Term), args[1].(*Term), args[2].(*Term))
		},
		"verifIteInt": func(fr *frame, args []value) value {
			return fr.m.st().Ite(args[0].(*Term), args[1].(*Term), args[2].(*Term))
		},
		"verifB2U": func(fr *frame, args []value) value {
			return fr.m.st().Ite(args[0].(*Term), BV(1, 64), BV(0, 64))
		},
		"verifStrEq": func(fr *frame, args []value) value {
			r := fr.m.strEq(args[0], args[1])
			if r != tTrue && os.Getenv("GOSYM_DEBUG_STREQ") != "" {
				fmt.Fprintf(os.Stderr, "verifStrEq -> %s\n  A: %s\n  B: %s\n", r.String(), debugStr(args[0]), debugStr(args[1]))
			}
			return r
		},
		"verifBytesEq": func(fr *frame, args []value) value {
			a, _ := args[0].([]value)
			b, _ := args[1].([]value)
			if len(a) != len(b) {
				return tFalse
			}
			st := fr.m.st()
			r := tTrue
			for i := range a {
				r = st.And(r, st.Eq(a[i].(*Term), b[i].(*Term)))
			}
			return r
		},
		"verifWitness": func(fr *frame, args []value) value {
			m := fr.m
			// reachable iff the path condition is satisfiable
			if m.model == nil {
				r, mod := m.query()
				if r == "sat" {
					m.model = mod
				}
			}
			if m.model != nil {
				m.res.Witness = true
			}
			return nil
		},
		"verifKnownIf": func(fr *frame, args []value) value {
			fr.m.tags = append(fr.m.tags, knownTag{id: args[0].(string), cond: args[1].(*Term)})
			return nil
		},
		"verifOwnPanics":    func(fr *frame, args []value) value { fr.m.ownPanics = true; return nil },
		"verifOwnDeadlocks": func(fr *frame, args []value) value { fr.m.ownDeadlocks = true; return nil },
		"verifNoMerge":      func(fr *frame, args []value) value { fr.m.noMerge = true; return nil },
		"verifMapOrder":     func(fr *frame, args []value) value { fr.m.mapOrder = true; return nil },
		"verifSchedule": func(fr *frame, args []value) value {
			fr.m.sched.mode = int(fr.m.asInt(args[0], "schedule mode"))
			fr.m.sched.bound = int(fr.m.asInt(args[1], "schedule bound"))
			// the native build cannot be forced to follow a chosen schedule:
			// paths of schedule-quantified harnesses are not used as
			// conformance samples (counterexamples are still replayed)
			fr.m.noSample = true
			return nil
		},
		"verifQuiesce": func(fr *frame, args []value) value { fr.m.sched.quiesce(fr.g); return nil },
		"verifBlockedGoroutines": func(fr *frame, args []value) value {
			return BV(uint64(fr.m.sched.blockedCount()), 64)
		},
		"verifLiveGoroutines": func(fr *frame, args []value) value {
			return BV(uint64(fr.m.sched.liveOthers(fr.g)), 64)
		},
		"verifChanClosed": func(fr *frame, args []value) value {
			ch, _ := anyChan(args[0])
			return Bool(ch != nil && ch.closed)
		},
		"verifChanCloseCount": func(fr *frame, args []value) value {
			ch, _ := anyChan(args[0])
			if ch == nil {
				return BV(0, 64)
			}
			return BV(uint64(ch.nclose), 64)
		},
		"verifTime": func(fr *frame, args []value) value {
			return timeVal{ns: fr.m.input(args[0].(string), 64)}
		},
		"verifGuardedBy": func(fr *frame, args []value) value {
			mu, _ := args[0].(*value)
			if ia, ok := args[0].(iface); ok {
				mu, _ = ia.v.(*value)
			}
			if mu == nil {
				panic(pathAbort{"verifGuardedBy: nil mutex"})
			}
			name := args[1].(string)
			for _, a := range variadic(args[2]) {
				ptr, _ := a.(iface).v.(*value)
				if ptr == nil {
					continue
				}
				fr.m.guardRegister(mu, ptr, name)
				if mo, ok := (*ptr).(*mapObj); ok && mo != nil {
					fr.m.guardRegister(mu, mo, name)
				}
			}
			return nil
		},
		"verifRWMutexFree": func(fr *frame, args []value) value {
			p, _ := args[0].(*value)
			locked, readers := fr.m.sched.heldBy(p)
			return Bool(!locked && readers == 0)
		},
		"verifGuardOn":       func(fr *frame, args []value) value { fr.m.guardOn = true; return nil },
		"verifGuardOff":      func(fr *frame, args []value) value { fr.m.guardOn = false; return nil },
		"verifIsolationOn":   func(fr *frame, args []value) value { fr.m.isoOn = true; fr.m.iso = nil; return nil },
		"verifIsolationOff":  func(fr *frame, args []value) value { fr.m.isoOn = false; return nil },
		"verifRaceStress":    noop,
		"verifDailyLog":      inDailyLog,
		"verifWatchDailyLog": noop,
		"verifSetStdin": func(fr *frame, args []value) value {
			bs, _ := args[0].([]value)
			fr.m.stdin = append([]value(nil), bs...)
			fr.m.stdinChunk = int(fr.m.asInt(args[1], "stdin chunk"))
			if fr.m.stdinChunk < 1 {
				fr.m.stdinChunk = 1
			}
			fr.m.stdout = nil
			return nil
		},
		"verifStdoutBroken": func(fr *frame, args []value) value { fr.m.stdoutBroken = true; return nil },
		"verifStdout":       func(fr *frame, args []value) value { return append([]value(nil), fr.m.stdout...) },
		"verifRestoreStdio": noop,
		"verifTempDir":      func(fr *frame, args []value) value { return "/verif-scratch-dir" },
		"verifRemoveDir":    noop,
		"verifNativeRepeat": func(fr *frame, args []value) value { return BV(1, 64) },
		"verifFixedClock": func(fr *frame, args []value) value {
			fr.m.fixedNow = uint64(fr.m.asInt(args[0], "fixed clock"))
			return nil
		},
		"verifCountByte": func(fr *frame, args []value) value {
			st := fr.m.st()
			bs, _ := args[0].([]value)
			c := args[1].(*Term)
			r := BV(0, 64)
			n := uint64(0)
			for _, b := range bs {
				t := b.(*Term)
				if t.IsConst() && c.IsConst() {
					if t.c == c.c {
						n++
					}
					continue
				}
				r = st.Add(r, st.Ite(st.Eq(t, c), BV(1, 64), BV(0, 64)))
			}
			return st.Add(r, BV(n, 64))
		},
		"verifSlow": func(fr *frame, args []value) value {
			// a slow call always lets the others run, in every mode (fairness:
			// a goroutine that polls must not starve the rest of the program)
			fr.m.sched.yield(fr.g)
			return nil
		},
		"verifClockModel": func(fr *frame, args []value) value {
			fr.m.clockJitter = uint64(fr.m.asInt(args[0], "clock jitter"))
			return nil
		},
		"verifAdvanceClock": func(fr *frame, args []value) value {
			fr.m.clockAdvance(args[0].(*Term))
			return nil
		},
		"verifTimeWindow": func(fr *frame, args []value) value {
			fr.m.timeWinLo = uint64(fr.m.asInt(args[0], "time window"))
			fr.m.timeWinHi = uint64(fr.m.asInt(args[1], "time window"))
			return nil
		},
		"verifTimeOf":         func(fr *frame, args []value) value { return timeVal{ns: args[0].(*Term)} },
		"verifTimeNs":         func(fr *frame, args []value) value { return args[0].(timeVal).ns },
		"verifShowsDecimals4": inShowsDecimals4,
		"verifRegister":       noop,
		"verifRecord":         noop,
		"verifHexModel":       func(fr *frame, args []value) value { fr.m.hexModel = true; return nil },
		"verifMutexHeld": func(fr *frame, args []value) value {
			p, _ := args[0].(*value)
			locked, readers := fr.m.sched.heldBy(p)
			return tuple{Bool(locked), BV(uint64(readers), 64)}
		},
	}
}

func anyChan(v value) (*chanObj, bool) {
	switch v := v.(type) {
	case *chanObj:
		return v, true
	case iface:
		c, ok := v.v.(*chanObj)
		return c, ok
	}
	return nil, false
}

func (m *Machine) input(name string, w int) *Term {
	t := m.st().Var(name, KBV, w)
	m.inputs[name] = t
	if m.concrete != nil {
		v, ok := m.concrete[name]
		if !ok {
			v = m.rng.Uint64()
			m.concrete[name] = v
		}
		return BV(v, w)
	}
	return t
}

func inInput(w int) interceptFn {
	return func(fr *frame, args []value) value {
		return fr.m.input(args[0].(string), w)
	}
}

func inBool(fr *frame, args []value) value {
	m := fr.m
	name := args[0].(string)
	t := m.st().Var(name, KBool, 0)
	m.inputs[name] = t
	if m.concrete != nil {
		v, ok := m.concrete[name]
		if !ok {
			v = m.rng.Uint64() & 1
			m.concrete[name] = v
		}
		return Bool(v != 0)
	}
	return t
}

var _ = types.Typ

// verifShowsDecimals4(s, sep, vals): the text contains the values, each
// rendered as value/10000 with four decimals, separated by sep.  On the
// symbolic side the rendering is an opaque %.4f part; its argument must be
// float64(t) * 0.0001 (or float64(t) / 10000) for an integer term t, and the
// result is the bit-vector condition t == value (conversion exact below 2^53).
func inShowsDecimals4(fr *frame, args []value) value {
	m := fr.m
	st := m.st()
	sep, _ := args[1].(string)
	vals, _ := args[2].([]value)
	if s, ok := args[0].(string); ok {
		// fully concrete: compare with the exact decimal text
		var want []string
		for _, v := range vals {
			t := v.(*Term)
			if !t.IsConst() {
				return tFalse
			}
			want = append(want, decimal4(sext64(t.c, 64)))
		}
		return Bool(strings.Contains(s, strings.Join(want, sep)))
	}
	parts := partsOf(args[0])
	res := tFalse
	n := len(vals)
	for i := 0; i < len(parts); i++ {
		c := tTrue
		pos := i
		for k := 0; k < n && !c.IsFalse(); k++ {
			if k > 0 {
				if pos >= len(parts) || parts[pos].kind != "" || parts[pos].lit != sep {
					c = tFalse
					break
				}
				pos++
			}
			mc, width := decimal4At(st, parts, pos, vals[k].(*Term))
			if width == 0 {
				c = tFalse
				break
			}
			c = st.And(c, mc)
			pos += width
		}
		res = st.Or(res, c)
	}
	return res
}

// decimal4At recognises, at parts[i], a rendering of an integer count of
// ten-thousandths with four decimals and returns the condition under which
// it shows exactly v/10000: either one %.4f part whose operand is
// float64(t)*0.0001 (condition t == v), or the integer rendering
// "%d" "." "%04d" of (a, b) (condition: a and b are the truncated quotient
// and the magnitude of the remainder, and the sign survives, i.e. a < 0 when
// v < 0 -- "%d" cannot print "-0").  width 0: not such a rendering.
func decimal4At(st *Store, parts []strPart, i int, v *Term) (*Term, int) {
	if i >= len(parts) {
		return nil, 0
	}
	p := parts[i]
	if strings.HasPrefix(p.kind, "fmt:%.4f/") {
		it, ok := scaled4Operand(st, p.args[0])
		if !ok {
			return nil, 0
		}
		return st.Eq(it, v), 1
	}
	if strings.HasPrefix(p.kind, "fmt:%d/") && i+2 < len(parts) && parts[i+1].kind == "" && parts[i+1].lit == "." &&
		strings.HasPrefix(parts[i+2].kind, "fmt:%04d/") {
		ext := func(q strPart) *Term {
			t := q.args[0]
			if t.w >= 64 {
				return t
			}
			if strings.HasPrefix(q.kind[strings.LastIndexByte(q.kind, '/')+1:], "int") {
				return st.SExt(t, 64)
			}
			return st.ZExt(t, 64)
		}
		a, b := ext(p), ext(parts[i+2])
		k := BV(10000, 64)
		quo, rem := st.bin(OpSDiv, v, k), st.bin(OpSRem, v, k)
		zero := BV(0, 64)
		nonneg := st.And(st.SLe(zero, v), st.And(st.Eq(a, quo), st.Eq(b, rem)))
		neg := st.And(st.SLt(v, zero), st.And(st.SLt(a, zero), st.And(st.Eq(a, quo), st.Eq(b, st.Neg(rem)))))
		return st.Or(nonneg, neg), 3
	}
	return nil, 0
}

// scaled4Operand recognises float64(t)*0.0001 and float64(t)/10000 and
// returns t as a signed 64-bit term.
func scaled4Operand(st *Store, a *Term) (*Term, bool) {
	var conv *Term
	switch a.op {
	case OpFMul:
		for i := 0; i < 2; i++ {
			if k := a.a[i]; k.IsConst() && k.Float() == 0.0001 {
				conv = a.a[1-i]
			}
		}
	case OpFDiv:
		if k := a.a[1]; k.IsConst() && k.Float() == 10000 {
			conv = a.a[0]
		}
	}
	if conv == nil {
		return nil, false
	}
	switch conv.op {
	case OpFFromS:
		return st.SExt(conv.a[0], 64), true
	case OpFFromU:
		if conv.a[0].w < 64 {
			return st.ZExt(conv.a[0], 64), true
		}
		return conv.a[0], true // values >= 2^63 would differ; fields are at most 38 bits wide
	}
	return nil, false
}

func decimal4(v int64) string {
	sign := ""
	if v < 0 {
		sign = "-"
		v = -v
	}
	return fmt.Sprintf("%s%d.%04d", sign, v/10000, v%10000)
}

func debugStr(v value) string {
	var sb strings.Builder
	for _, p := range partsOf(v) {
		if p.kind == "" {
			sb.WriteString(p.lit)
			continue
		}
		sb.WriteString("«" + p.kind)
		for _, a := range p.args {
			sb.WriteString(" " + a.String())
		}
		sb.WriteString("»")
	}
	return sb.String()
}
