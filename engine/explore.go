package main

// Path exploration by re-execution: a path is identified by its decision
// sequence.  A worker executes the harness from the start following a
// prefix of decisions; at the first fresh decision it asks the solver which
// alternatives are feasible, takes one and queues the others.

import (
	"fmt"
	"go/token"
	"math/rand"
	"os"
	"sort"
	"strings"
	"sync"
	"sync/atomic"
	"time"

	"golang.org/x/tools/go/ssa"
)

type pathDead struct{ why string }  // infeasible or assumed away
type pathAbort struct{ why string } // unsupported construct / limit: inconclusive
type pathKill struct{}              // goroutine told to die at path end
type specAbort struct{ why string } // speculative execution of a branch arm hit a side effect

type knownTag struct {
	id   string
	cond *Term
}

type Violation struct {
	Harness string            `json:"harness"`
	Kind    string            `json:"kind"` // assert | panic | deadlock | hang
	Label   string            `json:"label"`
	Detail  string            `json:"detail"`
	Inputs  map[string]uint64 `json:"inputs"`
	Params  map[string]int64  `json:"params"`
	Known   []string          `json:"known,omitempty"`
	Pos     string            `json:"pos,omitempty"`
}

type PathResult struct {
	Outcome    string // ok | panic | deadlock | dead | abort
	Detail     string
	Violations []Violation
	Asserts    int
	Proved     int
	Unknown    int
	NInstr     int64
	Decisions  int
	Sample     *ObligationSample
	EvalSat    int
	Witness    bool
	Implicit   int64 // implicit Go safety conditions checked (index, slice bounds, nil dereference, type assertion)
}

type ObligationSample struct {
	Harness string           `json:"harness"`
	Label   string           `json:"label"`
	Params  map[string]int64 `json:"params,omitempty"`
	PCSize  int              `json:"path_condition_conjuncts"`
	Claim   string           `json:"claim"`
	Result  string           `json:"result"`
	Ms      int64            `json:"ms"`
}

type Machine struct {
	p *Program
	w *Worker
	h *Harness

	globals map[*ssa.Global]*value

	prefix []int64
	taken  []int64
	pc     []*Term
	pcKnow map[*Term]bool
	model  map[string]uint64 // a model of pc, or nil
	work   [][]int64

	nInstr       int64
	maxInstr     int64
	funcs        map[*ssa.Function]bool
	inputs       map[string]*Term
	params       map[string]int64
	tags         []knownTag
	ownPanics    bool
	spec         int // >0 while an arm of a symbolic branch runs speculatively for merging
	merges       int
	noMerge      bool
	ownDeadlocks bool
	mapOrder     bool
	res          PathResult

	sched *Sched
	// environment
	nowCount             int
	lastNow              *Term
	slept                *Term  // time slept or declared to pass since the last clock reading
	clockJitter          uint64 // > 0: realistic clock model with this jitter bound (ns)
	envSeq               int
	crcCalls             int
	sleeps               int
	timeComps            map[*Term]timeComp
	timeWinLo, timeWinHi uint64
	winChecked           map[*Term]bool
	guards               map[interface{}]*guardInfo
	guardOn              bool
	isoOn                bool
	iso                  map[interface{}]*isoRec
	noSample             bool
	dlogs                []*dlog
	stdin, stdout        []value
	stdoutBroken         bool
	capUnknown           map[*value]bool
	specLog              *[]specStoreRec
	syncObjs             map[*value]*syncObj
	stdinChunk           int
	fixedNow             uint64
	undecidedEq          int
	builders             map[*value]*value
	hexModel             bool
	rawCRC               bool
	entry                func(g *G)
	trace                []string
	concrete             map[string]uint64
	rng                  *rand.Rand
}

func (m *Machine) st() *Store { return m.w.st }

func (m *Machine) replaying() bool { return len(m.taken) < len(m.prefix) }

func (m *Machine) nextPrefix() int64 {
	d := m.prefix[len(m.taken)]
	m.taken = append(m.taken, d)
	return d
}

func (m *Machine) record(d int64) {
	m.taken = append(m.taken, d)
	if len(m.taken) > m.h.MaxDecisions {
		panic(pathAbort{fmt.Sprintf("unwinding limit: more than %d decisions on one path", m.h.MaxDecisions)})
	}
}

func (m *Machine) alt(d int64) {
	w := make([]int64, len(m.taken)+1)
	copy(w, m.taken)
	w[len(m.taken)] = d
	m.work = append(m.work, w)
}

func (m *Machine) addPC(c *Term) {
	if m.spec > 0 {
		panic(specAbort{"assumption"})
	}
	if c.IsConst() {
		if c.c == 0 {
			panic(pathDead{"assumption is false"})
		}
		return
	}
	if v, ok := m.pcKnow[c]; ok {
		if !v {
			panic(pathDead{"contradictory assumption"})
		}
		return
	}
	m.pc = append(m.pc, c)
	m.pcKnow[c] = true
	if c.op == OpNot {
		m.pcKnow[c.a[0]] = false
	} else {
		m.pcKnow[m.st().Not(c)] = false
	}
	// conjunctions: record the conjuncts too
	if c.op == OpBAnd {
		for _, a := range c.a {
			if _, ok := m.pcKnow[a]; !ok {
				m.pcKnow[a] = true
			}
		}
	}
	if m.model != nil {
		if !m.evalBool(c) {
			m.model = nil
		}
	}
}

func (m *Machine) evalBool(c *Term) bool {
	r := m.st().Eval(c, m.model, map[*Term]*Term{})
	return r.IsTrue()
}

func (m *Machine) query(extra ...*Term) (string, map[string]uint64) {
	as := make([]*Term, 0, len(m.pc)+len(extra))
	as = append(as, m.pc...)
	as = append(as, extra...)
	return m.w.sv.Check(as, true)
}

// branch decides a symbolic condition, forking when both sides are feasible.
func (m *Machine) branch(c *Term) bool {
	if c.IsConst() {
		return c.c == 1
	}
	if v, ok := m.pcKnow[c]; ok {
		return v
	}
	st := m.st()
	if m.spec > 0 {
		panic(specAbort{"symbolic branch"})
	}
	if m.replaying() {
		d := m.nextPrefix()
		if d == 1 {
			m.addPC(c)
		} else {
			m.addPC(st.Not(c))
		}
		return d == 1
	}
	nc := st.Not(c)
	var tOK, fOK, tKnown, fKnown bool
	var tModel, fModel map[string]uint64
	if m.model != nil {
		if m.evalBool(c) {
			tOK, tKnown, tModel = true, true, m.model
		} else {
			fOK, fKnown, fModel = true, true, m.model
		}
	}
	if !tKnown {
		r, mod := m.query(c)
		tOK = r != "unsat"
		if r == "sat" {
			tModel = mod
		}
		if r == "unknown" {
			m.res.Unknown++
		}
	}
	if !fKnown {
		r, mod := m.query(nc)
		fOK = r != "unsat"
		if r == "sat" {
			fModel = mod
		}
		if r == "unknown" {
			m.res.Unknown++
		}
	}
	switch {
	case tOK && fOK:
		// take the side the cached model is on, queue the other
		if fKnown && !tKnown {
			m.alt(1)
			m.record(0)
			m.model = fModel
			m.addPC(nc)
			return false
		}
		m.alt(0)
		m.record(1)
		m.model = tModel
		m.addPC(c)
		return true
	case tOK:
		m.record(1)
		m.model = tModel
		m.addPC(c)
		return true
	case fOK:
		m.record(0)
		m.model = fModel
		m.addPC(nc)
		return false
	}
	panic(pathDead{"path condition infeasible"})
}

// concretize enumerates the feasible values of t on this path (forking per
// value) and returns the one this path takes.
func (m *Machine) concretize(t *Term, what string) uint64 {
	if t.IsConst() {
		return t.c
	}
	if m.spec > 0 {
		panic(specAbort{"concretize"})
	}
	st := m.st()
	if m.replaying() {
		d := uint64(m.nextPrefix())
		m.addPC(st.Eq(t, BV(d, t.w)))
		return d
	}
	var vals []uint64
	var models []map[string]uint64
	var excl []*Term
	if m.model != nil {
		v := st.Eval(t, m.model, map[*Term]*Term{})
		if v.IsConst() {
			vals = append(vals, v.c)
			models = append(models, m.model)
			excl = append(excl, st.Not(st.Eq(t, BV(v.c, t.w))))
		}
	}
	for {
		if len(vals) > m.h.MaxConcretize {
			panic(pathAbort{fmt.Sprintf("concretize(%s): more than %d feasible values", what, m.h.MaxConcretize)})
		}
		r, mod := m.query(excl...)
		if r == "unsat" {
			break
		}
		if r != "sat" {
			m.res.Unknown++
			panic(pathAbort{"concretize(" + what + "): solver answered unknown"})
		}
		v := st.Eval(t, mod, map[*Term]*Term{})
		if !v.IsConst() {
			panic(engineError{"concretize: model does not determine the term"})
		}
		vals = append(vals, v.c)
		models = append(models, mod)
		excl = append(excl, st.Not(st.Eq(t, BV(v.c, t.w))))
	}
	if len(vals) == 0 {
		panic(pathDead{"path condition infeasible"})
	}
	for _, v := range vals[1:] {
		m.alt(int64(v))
	}
	m.record(int64(vals[0]))
	m.model = models[0]
	m.addPC(st.Eq(t, BV(vals[0], t.w)))
	return vals[0]
}

// choose is a concrete nondeterministic choice among n alternatives.
func (m *Machine) choose(n int) int {
	if n <= 1 {
		return 0
	}
	if m.spec > 0 {
		panic(specAbort{"choice"})
	}
	if m.replaying() {
		return int(m.nextPrefix())
	}
	for i := 1; i < n; i++ {
		m.alt(int64(i))
	}
	m.record(0)
	return 0
}

func (m *Machine) exclusion() *Term {
	e := tFalse
	for _, t := range m.tags {
		if m.p.knownOpen[t.id] {
			e = m.st().Or(e, t.cond)
		}
	}
	return e
}

func (m *Machine) knownIn(model map[string]uint64) []string {
	var ids []string
	for _, t := range m.tags {
		if m.p.knownOpen[t.id] && m.st().Eval(t.cond, model, map[*Term]*Term{}).IsTrue() {
			ids = append(ids, t.id)
		}
	}
	sort.Strings(ids)
	return ids
}

func (m *Machine) inputsFrom(model map[string]uint64) map[string]uint64 {
	in := map[string]uint64{}
	for name := range m.inputs {
		in[name] = model[name]
	}
	return in
}

func (m *Machine) paramsCopy() map[string]int64 {
	p := map[string]int64{}
	for k, v := range m.params {
		p[k] = v
	}
	return p
}

// checkAssert discharges a property assertion on the current path.
func (m *Machine) checkAssert(label string, c *Term, pos string) {
	m.res.Asserts++
	m.trace = append(m.trace, label)
	st := m.st()
	start := time.Now()
	result := "unsat"
	c = m.simplify(c)
	if c.IsTrue() {
		m.res.Proved++
		return
	}
	nc := st.Not(c)
	excl := m.exclusion()
	r, mod := "", map[string]uint64(nil)
	// Cheap counterexample search first: evaluate the claim under models of
	// the path condition (the cached one, then a few diversified ones when
	// floating point is involved, where the solver is slow to answer sat).
	if cex := m.searchByEvaluation(c, excl); cex != nil {
		r, mod = "sat", cex
		m.res.EvalSat++
	} else {
		r, mod = m.query(nc, st.Not(excl))
	}
	switch r {
	case "sat":
		result = "sat"
		m.res.Violations = append(m.res.Violations, Violation{
			Harness: m.h.Name, Kind: "assert", Label: label, Inputs: m.inputsFrom(mod),
			Params: m.paramsCopy(), Pos: pos,
		})
	case "unknown":
		result = "unknown"
		m.res.Unknown++
	default:
		if !excl.IsFalse() {
			r2, mod2 := m.query(nc, excl)
			if r2 == "sat" {
				result = "sat-known"
				m.res.Violations = append(m.res.Violations, Violation{
					Harness: m.h.Name, Kind: "assert", Label: label, Inputs: m.inputsFrom(mod2),
					Params: m.paramsCopy(), Known: m.knownIn(mod2), Pos: pos,
				})
			} else if r2 == "unknown" {
				result = "unknown"
				m.res.Unknown++
			} else {
				m.res.Proved++
			}
		} else {
			m.res.Proved++
		}
	}
	if result == "unknown" && os.Getenv("GOSYM_DEBUG") != "" {
		fmt.Fprintf(logw, "UNKNOWN %s %s params=%v\n   claim=%s\n", m.h.Name, label, m.params, c.String())
	}
	if m.res.Sample == nil || (result == "unsat" && m.res.Sample.Result != "unsat") {
		m.res.Sample = &ObligationSample{Harness: m.h.Name, Label: label, Params: m.paramsCopy(),
			PCSize: len(m.pc), Claim: c.String(), Result: result, Ms: time.Since(start).Milliseconds()}
	}
	// continue under the claim
	if c.IsFalse() {
		panic(pathDead{"assertion is false on the whole path"})
	}
	if result == "unknown" || (c.fp && result != "unsat") {
		// do not carry an undecided or refuted floating-point claim in the
		// path condition: every later query would have to solve it
		return
	}
	m.model = nil
	m.addPC(c)
}

// searchByEvaluation looks for a model of the path condition under which
// the claim is false and no open known-finding tag holds.
func (m *Machine) searchByEvaluation(c, excl *Term) map[string]uint64 {
	st := m.st()
	falsifies := func(mod map[string]uint64) bool {
		cache := map[*Term]*Term{}
		if !st.Eval(c, mod, cache).IsFalse() {
			return false
		}
		return st.Eval(excl, mod, cache).IsFalse()
	}
	if m.model == nil && c.fp {
		if r, mod := m.query(); r == "sat" {
			m.model = mod
		}
	}
	if m.model != nil && falsifies(m.model) {
		return m.model
	}
	if !c.fp {
		return nil
	}
	// diversified models: pin a few low bits of each input the claim reads
	vars := collectVars([]*Term{c})
	for try := 0; try < 6; try++ {
		var extra []*Term
		for _, v := range vars {
			if v.kind != KBV {
				continue
			}
			nb := 5
			if v.w < nb {
				nb = v.w
			}
			pat := m.evalRng().Uint64()
			extra = append(extra, st.Eq(st.Extract(v, nb-1, 0), BV(pat, nb)))
		}
		// only path-condition conjuncts without floating point, so the query is cheap
		as := make([]*Term, 0, len(m.pc)+len(extra))
		for _, p := range m.pc {
			if !p.fp {
				as = append(as, p)
			}
		}
		as = append(as, extra...)
		r, mod := m.w.sv.Check(as, true)
		if r != "sat" {
			continue
		}
		// the model must satisfy the whole path condition
		ok := true
		cache := map[*Term]*Term{}
		for _, p := range m.pc {
			if !st.Eval(p, mod, cache).IsTrue() {
				ok = false
				break
			}
		}
		if ok && falsifies(mod) {
			return mod
		}
	}
	return nil
}

func (m *Machine) evalRng() *rand.Rand {
	if m.rng == nil {
		m.rng = rand.New(rand.NewSource(m.p.seed + int64(len(m.taken))*7919))
	}
	return m.rng
}

// reportEnd classifies a path that ended in a panic, deadlock or hang.
func (m *Machine) reportEnd(kind, detail, pos string) {
	st := m.st()
	excl := m.exclusion()
	r, mod := m.query(st.Not(excl))
	switch r {
	case "sat":
		m.res.Violations = append(m.res.Violations, Violation{Harness: m.h.Name, Kind: kind, Label: kind,
			Detail: detail, Inputs: m.inputsFrom(mod), Params: m.paramsCopy(), Pos: pos})
	case "unknown":
		m.res.Unknown++
	default:
		if !excl.IsFalse() {
			r2, mod2 := m.query(excl)
			if r2 == "sat" {
				m.res.Violations = append(m.res.Violations, Violation{Harness: m.h.Name, Kind: kind, Label: kind,
					Detail: detail, Inputs: m.inputsFrom(mod2), Params: m.paramsCopy(), Known: m.knownIn(mod2), Pos: pos})
			}
		}
	}
}

// ---------------------------------------------------------------- harness runs

type Harness struct {
	stopped       atomic.Bool
	Name          string
	Pkg           string
	Fn            *ssa.Function
	Solver        string
	TimeoutMs     int
	MaxDecisions  int
	MaxConcretize int
	MaxInstr      int64
	MaxPaths      int
}

type HarnessResult struct {
	Name                string
	Paths               int
	OK                  int
	Panics              int
	Deadlocks           int
	Dead                int
	Aborts              int
	AbortWhy            map[string]int
	PanicWhy            map[string]int
	Asserts             int
	Proved              int
	Unknown             int
	NInstr              int64
	Violations          []Violation
	Samples             []ObligationSample
	Witnesses           int
	Implicit            int64
	Funcs               map[string]bool
	Solver              SolverStats
	Wall                time.Duration
	BudgetHit           bool
	NewViolations       int
	StoppedOnViolations bool
	EngineError         string
}

type Worker struct {
	id int
	st *Store
	sv *Solver
}

func runHarness(p *Program, h *Harness, nworkers int) *HarnessResult {
	start := time.Now()
	res := &HarnessResult{Name: h.Name, AbortWhy: map[string]int{}, PanicWhy: map[string]int{}, Funcs: map[string]bool{}}
	var mu sync.Mutex
	cond := sync.NewCond(&mu)
	queue := [][]int64{{}}
	active := 0
	stop := false
	var wg sync.WaitGroup
	for wi := 0; wi < nworkers; wi++ {
		wg.Add(1)
		go func(wi int) {
			defer wg.Done()
			w := &Worker{id: wi, st: NewStore()}
			defer func() {
				if w.sv != nil {
					mu.Lock()
					addStats(&res.Solver, &w.sv.Stats)
					mu.Unlock()
					w.sv.Close()
				}
			}()
			for {
				mu.Lock()
				for len(queue) == 0 && active > 0 && !stop {
					cond.Wait()
				}
				if stop || (len(queue) == 0 && active == 0) {
					mu.Unlock()
					cond.Broadcast()
					return
				}
				prefix := queue[len(queue)-1]
				queue = queue[:len(queue)-1]
				active++
				mu.Unlock()

				if w.sv == nil {
					w.sv = NewSolver(h.Solver, h.TimeoutMs)
				}
				m, eerr := runPath(p, w, h, prefix)

				mu.Lock()
				active--
				if eerr != "" {
					res.EngineError = eerr
					stop = true
				} else {
					mergePath(res, m)
					queue = append(queue, m.work...)
					if res.Paths >= h.MaxPaths && len(queue) > 0 {
						res.BudgetHit = true
						stop = true
						h.stopped.Store(true)
					}
					if res.NewViolations >= 12 && len(queue) > 0 {
						// enough counterexamples to report; the rest of the space is not explored
						res.StoppedOnViolations = true
						stop = true
						h.stopped.Store(true)
					}
				}
				mu.Unlock()
				cond.Broadcast()
			}
		}(wi)
	}
	wg.Wait()
	res.Wall = time.Since(start)
	return res
}

func addStats(a, b *SolverStats) {
	a.Queries += b.Queries
	a.Sat += b.Sat
	a.Unsat += b.Unsat
	a.Unknown += b.Unknown
	a.Errors += b.Errors
	a.Time += b.Time
	a.Restarts += b.Restarts
	if b.MaxMs > a.MaxMs {
		a.MaxMs = b.MaxMs
	}
}

func mergePath(res *HarnessResult, m *Machine) {
	r := &m.res
	res.Paths++
	switch r.Outcome {
	case "ok":
		res.OK++
	case "panic":
		res.Panics++
		res.PanicWhy[r.Detail]++
	case "deadlock":
		res.Deadlocks++
	case "dead":
		res.Dead++
	case "abort":
		res.Aborts++
		res.AbortWhy[r.Detail]++
	}
	res.Asserts += r.Asserts
	res.Proved += r.Proved
	res.Unknown += r.Unknown
	res.NInstr += m.nInstr
	res.Implicit += r.Implicit
	if r.Witness {
		res.Witnesses++
	}
	if len(res.Violations) < 200 {
		res.Violations = append(res.Violations, r.Violations...)
	}
	for _, v := range r.Violations {
		if len(v.Known) == 0 {
			res.NewViolations++
		}
	}
	if r.Sample != nil && len(res.Samples) < 4 {
		res.Samples = append(res.Samples, *r.Sample)
	}
	for f := range m.funcs {
		res.Funcs[f.String()] = true
	}
}

// runPath executes one path.  The returned string is non-empty on an
// engine-internal error.
func runPath(p *Program, w *Worker, h *Harness, prefix []int64) (m *Machine, engineErr string) {
	m = &Machine{p: p, w: w, h: h, prefix: prefix, pcKnow: map[*Term]bool{},
		funcs: map[*ssa.Function]bool{}, inputs: map[string]*Term{}, params: map[string]int64{},
		globals: map[*ssa.Global]*value{}, maxInstr: h.MaxInstr}
	m.model = map[string]uint64{} // the empty pc is satisfied by the all-zero model
	defer func() {
		if r := recover(); r != nil {
			engineErr = fmt.Sprintf("%v", r)
		}
	}()
	m.runMain()
	m.samplePath()
	m.res.NInstr = m.nInstr
	m.res.Decisions = len(m.taken)
	return m, ""
}

func posStr(fset *token.FileSet, pos token.Pos) string {
	if pos == token.NoPos {
		return ""
	}
	p := fset.Position(pos)
	f := p.Filename
	if i := strings.Index(f, "/repo/"); i >= 0 {
		f = f[i+6:]
	}
	return fmt.Sprintf("%s:%d", f, p.Line)
}

// samplePath keeps a concrete witness of this path (a model of its path
// condition) for the conformance replay against the native build.
func (m *Machine) samplePath() {
	if m.res.Outcome != "ok" && m.res.Outcome != "panic" {
		return
	}
	if len(m.res.Violations) > 0 || m.res.Unknown > 0 {
		return // conformance compares fully decided, violation-free paths only
	}
	if m.noSample || !m.p.wantSample(m.h.Name) {
		return
	}
	if m.model == nil {
		r, mod := m.query()
		if r != "sat" {
			return
		}
		m.model = mod
	}
	rc := replayCase{Harness: m.h.Name, Inputs: m.inputsFrom(m.model), Params: m.paramsCopy(), Tier: m.p.tier,
		Expect: m.res.Outcome, Detail: m.res.Detail, Trace: append([]string(nil), m.trace...)}
	m.p.addSample(rc)
}

// simplify rewrites t using what the path condition already fixes: every
// boolean subterm that is asserted (or refuted) on this path becomes a
// constant and the constructors re-fold.  Keeps merged ite terms from hiding
// syntactic equalities.
func (m *Machine) simplify(t *Term) *Term {
	if len(m.pcKnow) == 0 {
		return t
	}
	cache := map[*Term]*Term{}
	var rec func(x *Term) *Term
	rec = func(x *Term) *Term {
		if x.op == OpConst || x.op == OpVar && x.kind != KBool {
			return x
		}
		if r, ok := cache[x]; ok {
			return r
		}
		if x.kind == KBool {
			if v, ok := m.pcKnow[x]; ok {
				r := Bool(v)
				cache[x] = r
				return r
			}
		}
		if x.op == OpVar {
			return x
		}
		args := make([]*Term, len(x.a))
		changed := false
		for i, a := range x.a {
			args[i] = rec(a)
			if args[i] != a {
				changed = true
			}
		}
		r := x
		if changed {
			r = m.st().rebuild(x, args)
		}
		cache[x] = r
		return r
	}
	return rec(t)
}
