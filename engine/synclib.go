package main

// Models of small library pieces that changed code may reach for:
// sync.Once, sync.Pool, sync.Map, sync/atomic, strconv.Itoa, a few math
// functions.  (encoding/binary is interpreted from its source.)

import (
	"fmt"
	"go/types"
	"math"
	"strings"
)

type syncObj struct {
	done bool    // sync.Once
	pool []value // sync.Pool: objects put back, last in first out
	mp   *mapObj // sync.Map
	val  value   // atomic.Value
}

func (m *Machine) syncObjOf(p value, what string) *syncObj {
	k, _ := p.(*value)
	if k == nil {
		panic(pathAbort{what + " through an unsupported pointer"})
	}
	if m.syncObjs == nil {
		m.syncObjs = map[*value]*syncObj{}
	}
	o := m.syncObjs[k]
	if o == nil {
		o = &syncObj{}
		m.syncObjs[k] = o
	}
	return o
}

func (fr *frame) visiblePoint() {
	if fr.m.sched != nil && fr.g != nil {
		fr.m.sched.visible(fr.g)
	}
}

func icOnceDo(fr *frame, args []value) value {
	fr.visiblePoint()
	o := fr.m.syncObjOf(args[0], "sync.Once")
	if !o.done {
		// (a second goroutine arriving while f runs would block natively;
		// here f runs to its end first unless it blocks itself)
		o.done = true
		// what f writes is published by the Once (every other caller waits
		// for it): for the isolation monitor these are protected accesses
		fr.g.nlocks++
		defer func() { fr.g.nlocks-- }()
		fr.m.call(fr, 0, args[1], nil)
	}
	return nil
}

// sync.Pool: Get hands out the object put back last, else New().  The real
// pool may drop objects at any time; a harness must not depend on reuse, a
// counterexample that needs reuse is what a single goroutine sees natively.
func icPoolGet(fr *frame, args []value) value {
	fr.visiblePoint()
	o := fr.m.syncObjOf(args[0], "sync.Pool")
	if n := len(o.pool); n > 0 {
		v := o.pool[n-1]
		o.pool = o.pool[:n-1]
		// the pool hands the object over with synchronisation: what its
		// previous user wrote is not shared state for the isolation monitor
		// (coarse: the monitor's records start afresh)
		fr.m.iso = nil
		return v
	}
	p := args[0].(*value)
	st, _ := (*p).(structure)
	if len(st) > 0 {
		switch nf := st[len(st)-1].(type) {
		case *closure:
			if nf != nil {
				return fr.m.call(fr, 0, nf, nil)
			}
		case interface{ String() string }:
			if fn, ok := st[len(st)-1].(interface{ String() string }); ok && fn != nil {
				return fr.m.call(fr, 0, st[len(st)-1], nil)
			}
		}
	}
	return iface{}
}

func icPoolPut(fr *frame, args []value) value {
	fr.visiblePoint()
	o := fr.m.syncObjOf(args[0], "sync.Pool")
	if ia, ok := args[1].(iface); ok && ia.t == nil {
		return nil
	}
	o.pool = append(o.pool, args[1])
	return nil
}

func (fr *frame) syncMap(p value) *mapObj {
	o := fr.m.syncObjOf(p, "sync.Map")
	if o.mp == nil {
		o.mp = &mapObj{keyType: types.NewInterfaceType(nil, nil)}
	}
	return o.mp
}

func icSyncMapLoad(fr *frame, args []value) value {
	fr.visiblePoint()
	mo := fr.syncMap(args[0])
	if i, ok := fr.mapFind(mo, args[1]); ok {
		return tuple{mo.vals[i], tTrue}
	}
	return tuple{iface{}, tFalse}
}

func icSyncMapStore(fr *frame, args []value) value {
	fr.visiblePoint()
	fr.mapInsert(fr.syncMap(args[0]), args[1], args[2])
	return nil
}

func icSyncMapLoadOrStore(fr *frame, args []value) value {
	fr.visiblePoint()
	mo := fr.syncMap(args[0])
	if i, ok := fr.mapFind(mo, args[1]); ok {
		return tuple{mo.vals[i], tTrue}
	}
	mo.keys = append(mo.keys, copyVal(args[1]))
	mo.vals = append(mo.vals, args[2])
	return tuple{args[2], tFalse}
}

func icSyncMapDelete(fr *frame, args []value) value {
	fr.visiblePoint()
	fr.mapDelete(fr.syncMap(args[0]), args[1])
	return nil
}

func icSyncMapLoadAndDelete(fr *frame, args []value) value {
	fr.visiblePoint()
	mo := fr.syncMap(args[0])
	if i, ok := fr.mapFind(mo, args[1]); ok {
		v := mo.vals[i]
		mo.keys = append(mo.keys[:i:i], mo.keys[i+1:]...)
		mo.vals = append(mo.vals[:i:i], mo.vals[i+1:]...)
		return tuple{v, tTrue}
	}
	return tuple{iface{}, tFalse}
}

func icSyncMapRange(fr *frame, args []value) value {
	fr.visiblePoint()
	mo := fr.syncMap(args[0])
	keys := append([]value(nil), mo.keys...)
	vals := append([]value(nil), mo.vals...)
	for i := range keys {
		r, _ := fr.m.call(fr, 0, args[1], []value{keys[i], vals[i]}).(*Term)
		if r == nil || !fr.m.branch(r) {
			break
		}
	}
	return nil
}

func icAtomicValueLoad(fr *frame, args []value) value {
	fr.visiblePoint()
	o := fr.m.syncObjOf(args[0], "atomic.Value")
	if o.val == nil {
		return iface{}
	}
	return o.val
}

func icAtomicValueStore(fr *frame, args []value) value {
	fr.visiblePoint()
	o := fr.m.syncObjOf(args[0], "atomic.Value")
	o.val = args[1]
	return nil
}

// sync/atomic on integers: plain loads and stores (the scheduler runs one
// goroutine at a time); every operation is a visible scheduling point.
func atomicIntercepts(tab map[string]interceptFn) {
	cell := func(fr *frame, a value) *value {
		p, _ := a.(*value)
		if p == nil {
			fr.tpanic("invalid memory address or nil pointer dereference (atomic)")
		}
		return p
	}
	for _, T := range []string{"Int32", "Int64", "Uint32", "Uint64", "Uintptr"} {
		tab["sync/atomic.Load"+T] = func(fr *frame, args []value) value {
			fr.visiblePoint()
			p := cell(fr, args[0])
			fr.guardCheck(p, false)
			return *p
		}
		tab["sync/atomic.Store"+T] = func(fr *frame, args []value) value {
			fr.visiblePoint()
			p := cell(fr, args[0])
			*p = args[1]
			return nil
		}
		tab["sync/atomic.Add"+T] = func(fr *frame, args []value) value {
			fr.visiblePoint()
			p := cell(fr, args[0])
			n := fr.m.st().Add((*p).(*Term), args[1].(*Term))
			*p = n
			return n
		}
		tab["sync/atomic.Swap"+T] = func(fr *frame, args []value) value {
			fr.visiblePoint()
			p := cell(fr, args[0])
			old := *p
			*p = args[1]
			return old
		}
		tab["sync/atomic.CompareAndSwap"+T] = func(fr *frame, args []value) value {
			fr.visiblePoint()
			p := cell(fr, args[0])
			if fr.m.branch(fr.m.st().Eq((*p).(*Term), args[1].(*Term))) {
				*p = args[2]
				return tTrue
			}
			return tFalse
		}
	}
}

func icItoa(fr *frame, args []value) value {
	return fr.sprintf("%d", []value{iface{t: types.Typ[types.Int], v: args[0]}})
}

func icMathRound(mode int) interceptFn {
	return func(fr *frame, args []value) value { return fr.m.st().FRound(args[0].(*Term), mode) }
}

func icMathAbs(fr *frame, args []value) value { return fr.m.st().FAbs(args[0].(*Term)) }

// functions of constants only
func icMathConst2(f func(a, b float64) float64, name string) interceptFn {
	return func(fr *frame, args []value) value {
		a, b := args[0].(*Term), args[1].(*Term)
		if !a.IsConst() || !b.IsConst() {
			panic(pathAbort{name + " of a symbolic value"})
		}
		return FP(f(a.Float(), b.Float()))
	}
}

func icMathConst1(f func(a float64) float64, name string) interceptFn {
	return func(fr *frame, args []value) value {
		a := args[0].(*Term)
		if !a.IsConst() {
			panic(pathAbort{name + " of a symbolic value"})
		}
		return FP(f(a.Float()))
	}
}

func libIntercepts(tab map[string]interceptFn) {
	tab["(*sync.Once).Do"] = icOnceDo
	tab["(*sync.Pool).Get"] = icPoolGet
	tab["(*sync.Pool).Put"] = icPoolPut
	tab["(*sync.Map).Load"] = icSyncMapLoad
	tab["(*sync.Map).Store"] = icSyncMapStore
	tab["(*sync.Map).LoadOrStore"] = icSyncMapLoadOrStore
	tab["(*sync.Map).Delete"] = icSyncMapDelete
	tab["(*sync.Map).LoadAndDelete"] = icSyncMapLoadAndDelete
	tab["(*sync.Map).Range"] = icSyncMapRange
	tab["(*sync/atomic.Value).Load"] = icAtomicValueLoad
	tab["(*sync/atomic.Value).Store"] = icAtomicValueStore
	atomicIntercepts(tab)
	tab["strconv.Itoa"] = icItoa
	tab["math.Abs"] = icMathAbs
	tab["math.Floor"] = icMathRound(0)
	tab["math.Ceil"] = icMathRound(1)
	tab["math.Trunc"] = icMathRound(2)
	tab["math.Round"] = icMathRound(3)
	tab["math.Pow"] = icMathConst2(math.Pow, "math.Pow")
	tab["math.Sqrt"] = icMathConst1(math.Sqrt, "math.Sqrt")
	tab["math.Log2"] = icMathConst1(math.Log2, "math.Log2")
	tab["math.Float64bits"] = func(fr *frame, args []value) value {
		a := args[0].(*Term)
		if !a.IsConst() {
			panic(pathAbort{"math.Float64bits of a symbolic value"})
		}
		return BV(math.Float64bits(a.Float()), 64)
	}
	_ = strings.Contains
	_ = fmt.Sprint
}
