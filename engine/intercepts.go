package main

// Environment stubs: every function outside the interpreted packages that
// the repository calls is modelled here.  Each model is part of the claim of
// every check that reaches it (DESIGN.md section 3.2).

import (
	"encoding/hex"
	"fmt"
	"go/types"
	"strings"
	"time"

	"golang.org/x/tools/go/ssa"
)

func noop(fr *frame, args []value) value { return nil }

func lookupIntercept(fn *ssa.Function) interceptFn {
	if fn.Pkg != nil && strings.HasPrefix(fn.Name(), "verif") && strings.HasPrefix(fn.Pkg.Pkg.Path(), repoModule) {
		if ic := intrinsics[fn.Name()]; ic != nil {
			return ic
		}
	}
	if fn.Name() == "init" && fn.Synthetic == "package initializer" {
		path := fn.Pkg.Pkg.Path()
		if !strings.HasPrefix(path, repoModule) {
			return noop
		}
		return nil
	}
	name := fn.String()
	if ic, ok := interceptTable[name]; ok {
		return ic
	}
	if fn.Pkg != nil {
		switch fn.Pkg.Pkg.Path() {
		case "log", "log/slog":
			return noopZero(fn)
		}
	}
	return nil
}

// noopZero returns the zero value(s) of the function's results.
func noopZero(fn *ssa.Function) interceptFn {
	return func(fr *frame, args []value) value { return zeroResults(fn) }
}

var interceptTable map[string]interceptFn

func init() {
	interceptTable = map[string]interceptFn{
		"fmt.Sprintf":  icSprintf,
		"fmt.Errorf":   icErrorf,
		"fmt.Sprint":   icSprint,
		"fmt.Sprintln": icSprintln,
		"fmt.Printf":   noop2,
		"fmt.Println":  noop2,
		"fmt.Print":    noop2,
		"fmt.Fprintf":  icFprintf,
		"fmt.Fprint":   icFprint,
		"fmt.Fprintln": icFprintln,

		"github.com/goblimey/go-crc24q/crc24q.Hash": icCRCHash,
		"encoding/hex.Dump":                         icHexDump,

		"internal/bytealg.IndexByte":       icIndexByte,
		"bytes.IndexByte":                  icIndexByte,
		"internal/bytealg.IndexByteString": icIndexByteString,
		"strings.IndexByte":                icIndexByteString,
		"internal/bytealg.Count":           icCountByte,
		"strings.NewReplacer":              icNewReplacer,
		"sort.Slice":                       icSortSlice,
		"sort.SliceStable":                 icSortSlice,
		"(*strings.Replacer).Replace":      icReplacerReplace,
		"(*strings.Builder).WriteString":   icBuilderWriteString,
		"(*strings.Builder).WriteByte":     icBuilderWriteByte,
		"(*strings.Builder).WriteRune":     icBuilderWriteRune,
		"(*strings.Builder).Write":         icBuilderWrite,
		"(*strings.Builder).String":        icBuilderString,
		"(*strings.Builder).Len":           icBuilderLen,
		"(*strings.Builder).Reset":         icBuilderReset,
		"(*strings.Builder).Grow":          noop,
		"strings.Contains":                 icStringsContains,
		"strings.Replace":                  icStringsReplace,
		"strings.ReplaceAll":               icStringsReplaceAll,
		"strings.HasPrefix":                icStringsHasPrefix,
		"strings.TrimSpace":                icStringsConcrete1(strings.TrimSpace),
		"strings.ToLower":                  icStringsConcrete1(strings.ToLower),
		"strings.ToUpper":                  icStringsConcrete1(strings.ToUpper),

		"time.LoadLocation":            icLoadLocation,
		"time.Now":                     icTimeNow,
		"time.Sleep":                   icTimeSleep,
		"time.After":                   icTimeAfter,
		"time.Date":                    icTimeDate,
		"(time.Time).In":               icTimeIn,
		"(time.Time).UTC":              icTimeUTC,
		"(time.Time).Zone":             icTimeZone,
		"(time.Time).Add":              icTimeAdd,
		"(time.Time).Sub":              icTimeSub,
		"(time.Time).AddDate":          icTimeAddDate,
		"(time.Time).Weekday":          icTimeWeekday,
		"(time.Time).Year":             icTimeComponent("year"),
		"(time.Time).Month":            icTimeComponent("month"),
		"(time.Time).Day":              icTimeComponent("day"),
		"(time.Time).Hour":             icTimeComponent("hour"),
		"(time.Time).Minute":           icTimeComponent("minute"),
		"(time.Time).Second":           icTimeComponent("second"),
		"(time.Time).Nanosecond":       icTimeComponent("nanosecond"),
		"(time.Time).Format":           icTimeFormat,
		"(time.Time).String":           icTimeString,
		"(time.Time).Equal":            icTimeCmp("eq"),
		"(time.Time).Before":           icTimeCmp("lt"),
		"(time.Time).After":            icTimeCmp("gt"),
		"(time.Time).IsZero":           icTimeIsZero,
		"(time.Time).Unix":             icTimeUnix(1e9),
		"(time.Time).UnixMilli":        icTimeUnix(1e6),
		"(time.Time).UnixNano":         icTimeUnix(1),
		"(time.Time).Location":         icTimeLocation,
		"(time.Duration).Milliseconds": icDurationDiv(1e6),
		"(time.Duration).Microseconds": icDurationDiv(1e3),
		"(time.Duration).Nanoseconds":  icDurationDiv(1),
		"(time.Duration).String":       icDurationString,

		"(*sync.Mutex).Lock":      icLock(false, true),
		"(*sync.Mutex).Unlock":    icLock(false, false),
		"(*sync.RWMutex).Lock":    icLock(false, true),
		"(*sync.RWMutex).Unlock":  icLock(false, false),
		"(*sync.RWMutex).RLock":   icLock(true, true),
		"(*sync.RWMutex).RUnlock": icLock(true, false),
		"(*sync.WaitGroup).Add": func(fr *frame, args []value) value {
			fr.m.sched.wgAdd(fr.g, args[0].(*value), int(fr.m.asInt(args[1], "WaitGroup delta")))
			return nil
		},
		"(*sync.WaitGroup).Done": func(fr *frame, args []value) value {
			fr.m.sched.wgAdd(fr.g, args[0].(*value), -1)
			return nil
		},
		"(*sync.WaitGroup).Wait": func(fr *frame, args []value) value {
			fr.m.sched.wgWait(fr.g, args[0].(*value))
			return nil
		},

		"(*os.File).Read":  icFileRead,
		"(*os.File).Write": icFileWrite,
		"(*os.File).Close": noopNilErr,
		"os.Exit":          icOsExit,

		"github.com/goblimey/go-tools/dailylogger.New":             icDailyLoggerNew,
		"(*github.com/goblimey/go-tools/dailylogger.Writer).Write": icDailyLoggerWrite,
	}
	libIntercepts(interceptTable)
}

func noop2(fr *frame, args []value) value { return tuple{BV(0, 64), iface{}} }

func noopNilErr(fr *frame, args []value) value { return iface{} }

func icOsExit(fr *frame, args []value) value {
	panic(targetPanic{v: iface{t: types.Typ[types.String], v: "os.Exit called"}, pos: fr.pos()})
}

// ---------------------------------------------------------------- fmt

type fmtVerb struct {
	spec string // e.g. "%04b"
	verb byte
	lit  string // literal text when verb == 0
}

func parseFormat(format string) []fmtVerb {
	var out []fmtVerb
	i := 0
	start := 0
	for i < len(format) {
		if format[i] != '%' {
			i++
			continue
		}
		if i > start {
			out = append(out, fmtVerb{lit: format[start:i]})
		}
		j := i + 1
		for j < len(format) && strings.IndexByte("+-# 0123456789.*[]", format[j]) >= 0 {
			j++
		}
		if j >= len(format) {
			out = append(out, fmtVerb{lit: format[i:]})
			return out
		}
		if format[j] == '%' {
			out = append(out, fmtVerb{lit: "%"})
		} else {
			out = append(out, fmtVerb{spec: format[i : j+1], verb: format[j]})
		}
		i = j + 1
		start = i
	}
	if start < len(format) {
		out = append(out, fmtVerb{lit: format[start:]})
	}
	return out
}

// nativeOf converts a fully concrete interpreter value of static type t to a
// Go value fmt can render the same way the real program would.
func (fr *frame) nativeOf(t types.Type, v value) (interface{}, bool) {
	m := fr.m
	switch v := v.(type) {
	case iface:
		if v.t == nil {
			return nil, true
		}
		return fr.nativeOf(v.t, v.v)
	}
	// methods first: error, then Stringer
	if t != nil {
		for _, name := range []string{"Error", "String"} {
			if isTimeType(t) && name == "String" {
				break
			}
			if f := m.p.findMethod(t, name); f != nil {
				sig := f.Signature
				if sig.Params().Len() == 0 && sig.Results().Len() == 1 && isString(sig.Results().At(0).Type()) {
					if p, ok := v.(*value); ok && p == nil {
						return "<nil>", true
					}
					r := m.callSSA(fr, fr.g, fr.curPos, f, []value{v}, nil)
					if s, ok := r.(string); ok {
						return fmtStringer(s), true
					}
					return r, false // symbolic string: caller splices
				}
			}
		}
	}
	switch v := v.(type) {
	case string:
		return v, true
	case *SymStr:
		return v, false
	case timeVal:
		if v.ns.IsConst() {
			return nsToTime(v.ns.c), true
		}
		return nil, false
	case *Term:
		if !v.IsConst() {
			return nil, false
		}
		b, _ := t.Underlying().(*types.Basic)
		if b == nil {
			return nil, false
		}
		switch b.Kind() {
		case types.Bool, types.UntypedBool:
			return v.c == 1, true
		case types.Int, types.UntypedInt:
			return int(sext64(v.c, 64)), true
		case types.Int8:
			return int8(v.c), true
		case types.Int16:
			return int16(v.c), true
		case types.Int32, types.UntypedRune:
			return int32(v.c), true
		case types.Int64:
			return int64(v.c), true
		case types.Uint:
			return uint(v.c), true
		case types.Uint8:
			return uint8(v.c), true
		case types.Uint16:
			return uint16(v.c), true
		case types.Uint32:
			return uint32(v.c), true
		case types.Uint64:
			return v.c, true
		case types.Uintptr:
			return uintptr(v.c), true
		case types.Float64, types.UntypedFloat:
			return v.Float(), true
		}
	case []value:
		if sl, ok := t.Underlying().(*types.Slice); ok {
			if eb, _ := sl.Elem().Underlying().(*types.Basic); eb != nil && eb.Kind() == types.Uint8 {
				bs := make([]byte, len(v))
				for i, e := range v {
					et := e.(*Term)
					if !et.IsConst() {
						return nil, false
					}
					bs[i] = byte(et.c)
				}
				return bs, true
			}
		}
	case *value:
		if v == nil {
			return nil, true
		}
	}
	return nil, false
}

// fmtStringer renders as its text under %v and %s.
type fmtStringer string

func (s fmtStringer) String() string { return string(s) }

func kindTag(t types.Type) string {
	if t == nil {
		return "nil"
	}
	if b, ok := t.Underlying().(*types.Basic); ok {
		return b.Name()
	}
	return t.String()
}

func (fr *frame) sprintf(format value, args []value) value {
	fs, ok := format.(string)
	if !ok {
		panic(pathAbort{"symbolic format string"})
	}
	var parts []strPart
	ai := 0
	for _, v := range parseFormat(fs) {
		if v.verb == 0 {
			parts = append(parts, litPart(v.lit))
			continue
		}
		if strings.ContainsAny(v.spec, "*[") {
			panic(pathAbort{"fmt verb with * or [n]: " + v.spec})
		}
		if ai >= len(args) {
			parts = append(parts, litPart("%!"+string(v.verb)+"(MISSING)"))
			continue
		}
		arg := args[ai].(iface)
		ai++
		parts = append(parts, fr.renderArg(v.spec, arg)...)
	}
	if ai < len(args) {
		panic(pathAbort{"fmt: extra arguments"})
	}
	return mkStr(parts)
}

func (fr *frame) renderArg(spec string, arg iface) []strPart {
	nat, ok := fr.nativeOf(arg.t, arg.v)
	if ok {
		return []strPart{litPart(fmt.Sprintf(spec, nat))}
	}
	// symbolic
	if s, isStr := nat.(*SymStr); isStr {
		if spec == "%s" || spec == "%v" {
			return s.parts
		}
		panic(pathAbort{"symbolic string under verb " + spec})
	}
	switch v := arg.v.(type) {
	case *SymStr:
		if spec == "%s" || spec == "%v" {
			return v.parts
		}
		panic(pathAbort{"symbolic string under verb " + spec})
	case *Term:
		return []strPart{{kind: "fmt:" + spec + "/" + kindTag(arg.t), args: []*Term{v}, n: -1}}
	case timeVal:
		return []strPart{{kind: "fmt:" + spec + "/time", args: []*Term{v.ns}, n: -1}}
	}
	panic(pathAbort{fmt.Sprintf("fmt: cannot render symbolic %s under %s", arg.t, spec)})
}

func variadic(v value) []value {
	if v == nil {
		return nil
	}
	return v.([]value)
}

func icSprintf(fr *frame, args []value) value { return fr.sprintf(args[0], variadic(args[1])) }

func icErrorf(fr *frame, args []value) value {
	return fr.m.newError(fr.g, fr.sprintf(args[0], variadic(args[1])))
}

func (fr *frame) sprint(args []value, ln bool) value {
	var parts []strPart
	prevString := true
	for i, a := range args {
		ia := a.(iface)
		_, isStr := ia.v.(string)
		_, isSym := ia.v.(*SymStr)
		isS := isStr || isSym
		if ln {
			if i > 0 {
				parts = append(parts, litPart(" "))
			}
		} else if i > 0 && !isS && !prevString {
			parts = append(parts, litPart(" "))
		}
		prevString = isS
		parts = append(parts, fr.renderArg("%v", ia)...)
	}
	if ln {
		parts = append(parts, litPart("\n"))
	}
	return mkStr(parts)
}

func icSprint(fr *frame, args []value) value   { return fr.sprint(variadic(args[0]), false) }
func icSprintln(fr *frame, args []value) value { return fr.sprint(variadic(args[0]), true) }

// Fprintf & co: only harness-provided writers (interface values whose Write
// is interpreted) are supported.
func (fr *frame) writeTo(w value, s value) value {
	wi := w.(iface)
	if wi.t == nil {
		fr.tpanic("nil io.Writer")
	}
	if wi.t.String() == "*strings.Builder" {
		// straight into the builder's text: no conversion to bytes, so
		// opaque renderings (a %.4f of a symbolic value) survive
		b := fr.m.builderOf(wi.v)
		*b = concatStr(*b, s)
		n := BV(0, 64)
		switch x := s.(type) {
		case string:
			n = BV(uint64(len(x)), 64)
		case *SymStr:
			n = fr.m.strLen(x)
		}
		return tuple{n, iface{}}
	}
	f := fr.m.p.findMethod(wi.t, "Write")
	if f == nil {
		panic(pathAbort{"Fprint to a writer without Write"})
	}
	return fr.m.callSSA(fr, fr.g, fr.curPos, f, []value{wi.v, strToBytes(s)}, nil)
}

func icFprintf(fr *frame, args []value) value {
	return fr.writeTo(args[0], fr.sprintf(args[1], variadic(args[2])))
}
func icFprint(fr *frame, args []value) value {
	return fr.writeTo(args[0], fr.sprint(variadic(args[1]), false))
}
func icFprintln(fr *frame, args []value) value {
	return fr.writeTo(args[0], fr.sprint(variadic(args[1]), true))
}

// ---------------------------------------------------------------- hex.Dump

func icHexDump(fr *frame, args []value) value {
	bs, _ := args[0].([]value)
	conc := make([]byte, len(bs))
	all := true
	terms := make([]*Term, len(bs))
	for i, b := range bs {
		t := b.(*Term)
		terms[i] = t
		if t.IsConst() {
			conc[i] = byte(t.c)
		} else {
			all = false
		}
	}
	if all {
		return hex.Dump(conc)
	}
	if fr.m.hexModel {
		return fr.m.hexDumpModel(terms)
	}
	return &SymStr{parts: []strPart{{kind: "hexdump", args: terms, n: len(hex.Dump(conc))}}}
}

// hexDumpModel renders hex.Dump byte by byte for symbolic input: the layout
// is fixed by the length; each hex digit and each ASCII-column character is
// a symbolic byte computed from the data byte.
func (m *Machine) hexDumpModel(data []*Term) value {
	st := m.st()
	conc := make([]byte, len(data))
	skeleton := hex.Dump(conc) // all-zero dump: same layout
	parts := make([]strPart, 0, len(skeleton))
	hexDigit := func(nib *Term) *Term { // 4-bit -> ascii
		n8 := st.ZExt(nib, 8)
		return st.Ite(st.ULt(n8, BV(10, 8)), st.Add(n8, BV('0', 8)), st.Add(n8, BV('a'-10, 8)))
	}
	// walk the skeleton: per line "%08x  hh hh ... |cccc|\n"
	pos := 0
	for line := 0; pos < len(skeleton); line++ {
		end := strings.IndexByte(skeleton[pos:], '\n') + pos + 1
		ln := skeleton[pos:end]
		nb := len(data) - line*16
		if nb > 16 {
			nb = 16
		}
		buf := []strPart{}
		col := 0
		// offset
		buf = append(buf, litPart(ln[:10]))
		col = 10
		for k := 0; k < 16; k++ {
			if k < nb {
				d := data[line*16+k]
				buf = append(buf, bytePart(hexDigit(st.Extract(d, 7, 4))), bytePart(hexDigit(st.Extract(d, 3, 0))))
			} else {
				buf = append(buf, litPart("  "))
			}
			col += 2
			buf = append(buf, litPart(" "))
			col++
			if k == 7 {
				buf = append(buf, litPart(" "))
				col++
			}
		}
		buf = append(buf, litPart("|"))
		for k := 0; k < nb; k++ {
			d := data[line*16+k]
			printable := st.And(st.ULe(BV(32, 8), d), st.ULe(d, BV(126, 8)))
			buf = append(buf, bytePart(st.Ite(printable, d, BV('.', 8))))
		}
		buf = append(buf, litPart("|\n"))
		parts = append(parts, buf...)
		pos = end
		_ = col
	}
	return mkStr(parts)
}

// ---------------------------------------------------------------- strings

func icStringsContains(fr *frame, args []value) value {
	sub, ok := args[1].(string)
	if !ok {
		panic(pathAbort{"strings.Contains with symbolic needle"})
	}
	r, ok := fr.m.strContainsLit(args[0], sub)
	if !ok {
		panic(pathAbort{"strings.Contains on a string with opaque parts"})
	}
	return r
}

func icStringsHasPrefix(fr *frame, args []value) value {
	s, ok1 := args[0].(string)
	p, ok2 := args[1].(string)
	if ok1 && ok2 {
		return Bool(strings.HasPrefix(s, p))
	}
	if ok2 {
		ps := partsOf(args[0])
		if len(ps) > 0 && ps[0].kind == "" && len(ps[0].lit) >= len(p) {
			return Bool(strings.HasPrefix(ps[0].lit, p))
		}
	}
	panic(pathAbort{"strings.HasPrefix on symbolic strings"})
}

func icStringsConcrete1(f func(string) string) interceptFn {
	return func(fr *frame, args []value) value {
		s, ok := args[0].(string)
		if !ok {
			panic(pathAbort{"strings function on a symbolic string"})
		}
		return f(s)
	}
}

// indexByteTerm: the index of the first byte equal to c, or -1, as a term.
func (m *Machine) indexByteTerm(bs []*Term, c *Term) *Term {
	st := m.st()
	r := BV(^uint64(0), 64)
	for i := len(bs) - 1; i >= 0; i-- {
		r = st.Ite(st.Eq(bs[i], c), BV(uint64(i), 64), r)
	}
	return r
}

func icIndexByte(fr *frame, args []value) value {
	vs, _ := args[0].([]value)
	bs := make([]*Term, len(vs))
	for i, v := range vs {
		bs[i] = v.(*Term)
	}
	return fr.m.indexByteTerm(bs, args[1].(*Term))
}

func icIndexByteString(fr *frame, args []value) value {
	if s, ok := args[0].(string); ok {
		bs := make([]*Term, len(s))
		for i := range bs {
			bs[i] = BV(uint64(s[i]), 8)
		}
		return fr.m.indexByteTerm(bs, args[1].(*Term))
	}
	bs, ok := unitBytes(args[0])
	if !ok {
		panic(pathAbort{"IndexByte on a string with opaque parts"})
	}
	return fr.m.indexByteTerm(bs, args[1].(*Term))
}

func icCountByte(fr *frame, args []value) value {
	vs, _ := args[0].([]value)
	st := fr.m.st()
	r := BV(0, 64)
	for _, v := range vs {
		r = st.Add(r, st.Ite(st.Eq(v.(*Term), args[1].(*Term)), BV(1, 64), BV(0, 64)))
	}
	return r
}

// sort.Slice / sort.SliceStable (the library versions go through reflection):
// an insertion sort that calls the caller's less function and swaps the
// elements in place; a symbolic comparison forks.  Insertion sort is stable;
// sort.Slice promises no order between equal elements, so a harness must not
// depend on it either.
func icSortSlice(fr *frame, args []value) value {
	x := args[0]
	if ia, ok := x.(iface); ok {
		x = ia.v
	}
	vs, ok := x.([]value)
	if !ok {
		panic(pathAbort{fmt.Sprintf("sort.Slice of %T", x)})
	}
	for i := 1; i < len(vs); i++ {
		for j := i; j > 0; j-- {
			r := fr.m.call(fr, 0, args[1], []value{BV(uint64(j), 64), BV(uint64(j-1), 64)})
			c, _ := r.(*Term)
			if c == nil {
				panic(pathAbort{"sort.Slice: less did not return a condition"})
			}
			if !fr.m.branch(c) {
				break
			}
			vs[j], vs[j-1] = vs[j-1], vs[j]
		}
	}
	return nil
}

// strings.Builder: the text built so far is kept beside the machine, keyed
// by the address of the builder.
func (m *Machine) builderOf(p value) *value {
	k, _ := p.(*value)
	if k == nil {
		panic(pathAbort{"strings.Builder through an unsupported pointer"})
	}
	if m.builders == nil {
		m.builders = map[*value]*value{}
	}
	b := m.builders[k]
	if b == nil {
		var v value = ""
		b = &v
		m.builders[k] = b
	}
	return b
}

func icBuilderWriteString(fr *frame, args []value) value {
	b := fr.m.builderOf(args[0])
	*b = concatStr(*b, args[1])
	n := BV(0, 64)
	switch s := args[1].(type) {
	case string:
		n = BV(uint64(len(s)), 64)
	case *SymStr:
		n = fr.m.strLen(s)
	}
	return tuple{n, iface{}}
}

func icBuilderWriteByte(fr *frame, args []value) value {
	b := fr.m.builderOf(args[0])
	*b = concatStr(*b, bytesToStr([]value{args[1]}))
	return iface{}
}

func icBuilderWriteRune(fr *frame, args []value) value {
	r := args[1].(*Term)
	if !r.IsConst() {
		panic(pathAbort{"strings.Builder.WriteRune with a symbolic rune"})
	}
	b := fr.m.builderOf(args[0])
	txt := string(rune(sext64(r.c, 32)))
	*b = concatStr(*b, txt)
	return tuple{BV(uint64(len(txt)), 64), iface{}}
}

func icBuilderWrite(fr *frame, args []value) value {
	b := fr.m.builderOf(args[0])
	bs, _ := args[1].([]value)
	*b = concatStr(*b, bytesToStr(bs))
	return tuple{BV(uint64(len(bs)), 64), iface{}}
}

func icBuilderString(fr *frame, args []value) value { return *fr.m.builderOf(args[0]) }

func icBuilderLen(fr *frame, args []value) value {
	switch s := (*fr.m.builderOf(args[0])).(type) {
	case string:
		return BV(uint64(len(s)), 64)
	case *SymStr:
		return fr.m.strLen(s)
	}
	return BV(0, 64)
}

func icBuilderReset(fr *frame, args []value) value {
	*fr.m.builderOf(args[0]) = ""
	return nil
}

// strings.NewReplacer / Replace for single-byte old strings whose
// replacements contain none of the old bytes: one pass over the string, each
// symbolic byte forks on which old byte it is.
type replacerObj struct{ olds, news []string }

func icNewReplacer(fr *frame, args []value) value {
	var r replacerObj
	vs := variadic(args[0])
	if len(vs)%2 != 0 {
		fr.tpanic("strings.NewReplacer: odd argument count")
	}
	for i := 0; i < len(vs); i += 2 {
		o, ok1 := vs[i].(string)
		n, ok2 := vs[i+1].(string)
		if !ok1 || !ok2 {
			panic(pathAbort{"strings.NewReplacer with symbolic arguments"})
		}
		r.olds = append(r.olds, o)
		r.news = append(r.news, n)
	}
	return &opaque{kind: "replacer", data: &r}
}

func icReplacerReplace(fr *frame, args []value) value {
	o, _ := args[0].(*opaque)
	if o == nil {
		fr.tpanic("invalid memory address or nil pointer dereference (nil Replacer)")
	}
	r := o.data.(*replacerObj)
	if cs, ok := args[1].(string); ok {
		var on []string
		for i := range r.olds {
			on = append(on, r.olds[i], r.news[i])
		}
		return strings.NewReplacer(on...).Replace(cs)
	}
	for _, old := range r.olds {
		if len(old) != 1 {
			panic(pathAbort{"strings.Replacer with a multi-byte pattern on a symbolic string"})
		}
	}
	var lit []string
	for i := range r.olds {
		lit = append(lit, r.olds[i], r.news[i])
	}
	conc := strings.NewReplacer(lit...)
	var out []strPart
	st := fr.m.st()
	for _, p := range partsOf(args[1]) {
		switch p.kind {
		case "":
			out = append(out, litPart(conc.Replace(p.lit)))
		case "byte":
			done := false
			for i, old := range r.olds {
				if fr.m.branch(st.Eq(p.args[0], BV(uint64(old[0]), 8))) {
					out = append(out, litPart(r.news[i]))
					done = true
					break
				}
			}
			if !done {
				out = append(out, p)
			}
		default:
			panic(pathAbort{"strings.Replacer on a string with opaque part " + p.kind})
		}
	}
	return mkStr(out)
}

// replaceAllModel implements strings.Replace(s, old, new, -1) for a
// one-byte old on strings made of literal and single-byte parts: each
// symbolic byte forks on whether it equals old.
func (fr *frame) replaceAllModel(s value, old, new string) value {
	if cs, ok := s.(string); ok {
		return strings.ReplaceAll(cs, old, new)
	}
	if len(old) != 1 {
		panic(pathAbort{"strings.Replace of a multi-byte pattern in a symbolic string"})
	}
	var out []strPart
	for _, p := range partsOf(s) {
		switch p.kind {
		case "":
			out = append(out, litPart(strings.ReplaceAll(p.lit, old, new)))
		case "byte":
			if fr.m.branch(fr.m.st().Eq(p.args[0], BV(uint64(old[0]), 8))) {
				out = append(out, litPart(new))
			} else {
				out = append(out, p)
			}
		default:
			panic(pathAbort{"strings.Replace on a string with opaque part " + p.kind})
		}
	}
	return mkStr(out)
}

func icStringsReplace(fr *frame, args []value) value {
	old, ok1 := args[1].(string)
	nw, ok2 := args[2].(string)
	n := args[3].(*Term)
	if !ok1 || !ok2 || !n.IsConst() {
		panic(pathAbort{"strings.Replace with symbolic pattern"})
	}
	if s, ok := args[0].(string); ok {
		return strings.Replace(s, old, nw, int(sext64(n.c, 64)))
	}
	if sext64(n.c, 64) >= 0 {
		panic(pathAbort{"strings.Replace with a count on a symbolic string"})
	}
	return fr.replaceAllModel(args[0], old, nw)
}

func icStringsReplaceAll(fr *frame, args []value) value {
	old, ok1 := args[1].(string)
	nw, ok2 := args[2].(string)
	if !ok1 || !ok2 {
		panic(pathAbort{"strings.ReplaceAll with symbolic pattern"})
	}
	return fr.replaceAllModel(args[0], old, nw)
}

// ---------------------------------------------------------------- CRC-24Q

const crc24qPoly = 0x1864CFB

func crc24qNative(data []byte) uint32 {
	crc := uint32(0)
	for _, b := range data {
		crc ^= uint32(b) << 16
		for i := 0; i < 8; i++ {
			crc <<= 1
			if crc&0x1000000 != 0 {
				crc ^= crc24qPoly
			}
		}
	}
	return crc & 0xFFFFFF
}

// crcUnit[k] = CRC of the bit 0x80 followed by k zero bits... computed
// lazily: unit(d) is the CRC of a message whose only set bit is d bit
// positions before the end of the message.
var crcUnitCache = func() []uint32 {
	// d ranges over 0 .. 8*1100
	n := 8 * 1100
	u := make([]uint32, n)
	// a single 1 bit as the last bit of the message: feed one bit
	// bitwise CRC: state after feeding bit 1 into zero state
	step := func(crc uint32, bit uint32) uint32 {
		crc ^= bit << 23
		crc <<= 1
		if crc&0x1000000 != 0 {
			crc ^= crc24qPoly
		}
		return crc & 0xFFFFFF
	}
	u[0] = step(0, 1)
	for d := 1; d < n; d++ {
		u[d] = step(u[d-1], 0)
	}
	return u
}()

// crcTerm builds the exact GF(2)-linear model of crc24q.Hash over a byte
// vector with symbolic entries: XOR over the message bits of the CRC of the
// corresponding unit vector.
func (m *Machine) crcTerm(bs []*Term) *Term {
	st := m.st()
	n := len(bs)
	if n*8 > len(crcUnitCache) {
		panic(pathAbort{"CRC over more than 1100 bytes"})
	}
	acc := uint32(0)
	var sym *Term
	for i, b := range bs {
		if b.IsConst() {
			for k := 0; k < 8; k++ {
				if b.c&(1<<uint(7-k)) != 0 {
					acc ^= crcUnitCache[(n-1-i)*8+(7-k)]
				}
			}
			continue
		}
		for k := 0; k < 8; k++ { // k-th bit from the msb
			bit := st.Extract(b, 7-k, 7-k)
			col := crcUnitCache[(n-1-i)*8+(7-k)]
			t := st.Ite(st.Eq(bit, BV(1, 1)), BV(uint64(col), 32), BV(0, 32))
			if sym == nil {
				sym = t
			} else {
				sym = st.BXor(sym, t)
			}
		}
	}
	if sym == nil {
		return BV(uint64(acc), 32)
	}
	return st.BXor(sym, BV(uint64(acc), 32))
}

func icCRCHash(fr *frame, args []value) value {
	bs, _ := args[0].([]value)
	ts := make([]*Term, len(bs))
	for i, b := range bs {
		ts[i] = b.(*Term)
	}
	fr.m.crcCalls++
	return fr.m.crcTerm(ts)
}

// ---------------------------------------------------------------- sync

func icLock(read, acquire bool) interceptFn {
	return func(fr *frame, args []value) value {
		p, _ := args[0].(*value)
		if p == nil {
			fr.tpanic("invalid memory address or nil pointer dereference (nil mutex)")
		}
		if acquire {
			fr.m.sched.lock(fr.g, p, read)
		} else {
			fr.m.sched.unlock(fr.g, p, read)
		}
		return nil
	}
}

// ---------------------------------------------------------------- time

func nsToTime(ns uint64) time.Time {
	if ns == zeroTimeNs {
		return time.Time{}
	}
	return time.Unix(0, int64(ns)).UTC()
}

const nsPerDay = 86400 * 1000000000

func icLoadLocation(fr *frame, args []value) value {
	name, _ := args[0].(string)
	return tuple{&opaque{kind: "location", data: name}, iface{}}
}

func icTimeLocation(fr *frame, args []value) value {
	if t, ok := args[0].(timeVal); ok && t.loc != "" {
		return &opaque{kind: "location", data: t.loc}
	}
	return &opaque{kind: "location", data: "UTC"}
}

func icTimeNow(fr *frame, args []value) value {
	m := fr.m
	st := m.st()
	if m.fixedNow != 0 {
		// verifFixedClock: concrete readings one millisecond apart
		m.nowCount++
		return timeVal{ns: BV(m.fixedNow+uint64(m.nowCount)*1000000, 64)}
	}
	m.nowCount++
	name := fmt.Sprintf("now#%d", m.nowCount)
	t := st.Var(name, KBV, 64)
	m.inputs[name] = t
	// inside [2000-01-01, 2100-01-01)
	lo := BV(uint64(946684800)*1e9, 64)
	hi := BV(uint64(4102444800)*1e9, 64)
	m.addPC(st.And(st.ULe(lo, t), st.ULt(t, hi)))
	if m.lastNow != nil {
		if m.clockJitter > 0 {
			// realistic clock (verifClockModel): the time since the previous
			// reading is what was slept or declared to pass, plus a bounded
			// jitter
			base := m.lastNow
			if m.slept != nil {
				base = st.Add(base, m.slept)
			}
			m.addPC(st.And(st.ULe(base, t), st.ULe(t, st.Add(base, BV(m.clockJitter, 64)))))
		} else {
			// non-decreasing, otherwise arbitrary
			m.addPC(st.ULe(m.lastNow, t))
		}
	}
	m.slept = nil
	m.lastNow = t
	return timeVal{ns: t}
}

func icTimeAfter(fr *frame, args []value) value {
	d := args[0].(*Term)
	if !d.IsConst() {
		panic(pathAbort{"time.After with a symbolic duration"})
	}
	return fr.m.sched.addTimer(d.c, nil)
}

func (m *Machine) clockAdvance(d *Term) {
	if d.IsConst() {
		m.sched.advance(d.c)
	}
	if m.slept == nil {
		m.slept = d
	} else {
		m.slept = m.st().Add(m.slept, d)
	}
}

func icTimeSleep(fr *frame, args []value) value {
	fr.m.sleeps++
	fr.m.clockAdvance(args[0].(*Term))
	fr.m.sched.yield(fr.g)
	return nil
}

// Locations.  An instant keeps the name of its zone; the zone matters for the
// calendar (Weekday, Year … Nanosecond), for Zone() and for formatting, not
// for comparisons and differences.  The offset of a named zone at a symbolic
// instant is an ite chain over the zone's transitions inside the declared
// time window (read from the system's tz database by the engine).
func locName(v value) string {
	if o, ok := v.(*opaque); ok && o != nil && o.kind == "location" {
		if n, _ := o.data.(string); n != "UTC" && n != "GMT" && n != "" {
			return n
		}
	}
	return ""
}

func icTimeIn(fr *frame, args []value) value {
	t := args[0].(timeVal)
	return timeVal{ns: t.ns, loc: locName(args[1])}
}

func icTimeUTC(fr *frame, args []value) value {
	return timeVal{ns: args[0].(timeVal).ns}
}

// zoneOffset returns the offset east of UTC, in seconds (64-bit term), of
// zone loc at instant ns.
func (m *Machine) zoneOffset(ns *Term, loc string) *Term {
	if loc == "" {
		return BV(0, 64)
	}
	l, err := time.LoadLocation(loc)
	if err != nil {
		panic(pathAbort{"unknown time zone " + loc})
	}
	offAt := func(n uint64) int64 {
		_, o := nsToTime(n).In(l).Zone()
		return int64(o)
	}
	if ns.IsConst() {
		return BV(uint64(offAt(ns.c)), 64)
	}
	if !m.inTimeWindow(ns) {
		panic(pathAbort{"zone offset of a symbolic instant outside a declared time window"})
	}
	// transitions inside the window: scan by the hour, then bisect to the second
	type seg struct {
		from uint64 // first instant (ns) with this offset
		off  int64
	}
	const hour = 3600 * 1000000000
	segs := []seg{{m.timeWinLo, offAt(m.timeWinLo)}}
	for a := m.timeWinLo; a < m.timeWinHi; a += hour {
		b := a + hour
		if b > m.timeWinHi {
			b = m.timeWinHi
		}
		if offAt(b) == segs[len(segs)-1].off {
			continue
		}
		lo, hi := a, b // offAt(lo) old, offAt(hi) new
		for hi-lo > 1000000000 {
			mid := lo + (hi-lo)/2
			mid -= mid % 1000000000
			if mid <= lo {
				break
			}
			if offAt(mid) == segs[len(segs)-1].off {
				lo = mid
			} else {
				hi = mid
			}
		}
		segs = append(segs, seg{hi, offAt(hi)})
	}
	st := m.st()
	r := BV(uint64(segs[len(segs)-1].off), 64)
	for i := len(segs) - 2; i >= 0; i-- {
		r = st.Ite(st.ULt(ns, BV(segs[i+1].from, 64)), BV(uint64(segs[i].off), 64), r)
	}
	return r
}

// localNs: the instant whose UTC calendar reading is t's reading in its zone.
func (m *Machine) localNs(t timeVal) *Term {
	if t.loc == "" {
		return t.ns
	}
	st := m.st()
	return st.Add(t.ns, st.Mul(m.zoneOffset(t.ns, t.loc), BV(1000000000, 64)))
}

func icTimeZone(fr *frame, args []value) value {
	t := args[0].(timeVal)
	if t.loc == "" {
		return tuple{"UTC", BV(0, 64)}
	}
	off := fr.m.zoneOffset(t.ns, t.loc)
	name := value(t.loc)
	if t.ns.IsConst() {
		if l, err := time.LoadLocation(t.loc); err == nil {
			n, _ := nsToTime(t.ns.c).In(l).Zone()
			name = n
		}
	}
	return tuple{name, off}
}

func icTimeAdd(fr *frame, args []value) value {
	t := args[0].(timeVal)
	return timeVal{ns: fr.m.st().Add(t.ns, args[1].(*Term)), loc: t.loc}
}

func icTimeSub(fr *frame, args []value) value {
	return fr.m.st().Sub(args[0].(timeVal).ns, args[1].(timeVal).ns)
}

func icTimeAddDate(fr *frame, args []value) value {
	t := args[0].(timeVal)
	y, mo, d := args[1].(*Term), args[2].(*Term), args[3].(*Term)
	if t.loc != "" {
		if l, err := time.LoadLocation(t.loc); err == nil && t.ns.IsConst() && y.IsConst() && mo.IsConst() && d.IsConst() {
			r := nsToTime(t.ns.c).In(l).AddDate(int(sext64(y.c, 64)), int(sext64(mo.c, 64)), int(sext64(d.c, 64)))
			return timeVal{ns: BV(uint64(r.UnixNano()), 64), loc: t.loc}
		}
		panic(pathAbort{"AddDate on a symbolic time in a zone other than UTC"})
	}
	if !y.IsConst() || !mo.IsConst() || y.c != 0 || mo.c != 0 {
		if t.ns.IsConst() && y.IsConst() && mo.IsConst() && d.IsConst() {
			r := nsToTime(t.ns.c).AddDate(int(sext64(y.c, 64)), int(sext64(mo.c, 64)), int(sext64(d.c, 64)))
			return timeVal{ns: BV(uint64(r.UnixNano()), 64)}
		}
		panic(pathAbort{"AddDate with years or months on a symbolic time"})
	}
	st := fr.m.st()
	// UTC has no DST: adding n days is adding n*24h
	return timeVal{ns: st.Add(t.ns, st.Mul(d, BV(nsPerDay, 64)))}
}

// Time window (verifTimeWindow): inside a declared window of instants the
// weekday and the midnight truncation of a symbolic instant are ite chains
// over the day boundaries of the window -- comparisons only, no 64-bit
// division for the solver.  That the instant lies inside the window is not
// assumed: it is a solver query on the current path (cached per term); if it
// can lie outside, the path is not decided.
func (m *Machine) inTimeWindow(t *Term) bool {
	if m.timeWinHi == 0 || t.IsConst() {
		return false
	}
	if ok, seen := m.winChecked[t]; seen {
		return ok
	}
	st := m.st()
	outside := st.Or(st.ULt(t, BV(m.timeWinLo, 64)), st.ULe(BV(m.timeWinHi, 64), t))
	if m.spec > 0 {
		panic(specAbort{"time window check"})
	}
	r, _ := m.query(outside)
	if r != "unsat" {
		if r == "unknown" {
			m.res.Unknown++
		}
		panic(pathAbort{"an instant may lie outside the declared time window"})
	}
	if m.winChecked == nil {
		m.winChecked = map[*Term]bool{}
	}
	m.winChecked[t] = true
	return true
}

// dayChain builds ite(t < d1, f(d0), ite(t < d2, f(d1), ...)) over the UTC
// day starts d0 < d1 < ... of the window.
func (m *Machine) dayChain(t *Term, f func(dayStart uint64) *Term) *Term {
	st := m.st()
	first := m.timeWinLo - m.timeWinLo%nsPerDay
	var starts []uint64
	for d := first; d < m.timeWinHi; d += nsPerDay {
		starts = append(starts, d)
	}
	r := f(starts[len(starts)-1])
	for i := len(starts) - 2; i >= 0; i-- {
		r = st.Ite(st.ULt(t, BV(starts[i+1], 64)), f(starts[i]), r)
	}
	return r
}

func icTimeWeekday(fr *frame, args []value) value {
	t := args[0].(timeVal)
	t = timeVal{ns: fr.m.localNs(t)}
	st := fr.m.st()
	if fr.m.inTimeWindow(t.ns) {
		return fr.m.dayChain(t.ns, func(d uint64) *Term { return BV((d/nsPerDay+4)%7, 64) })
	}
	days := st.bin(OpUDiv, t.ns, BV(nsPerDay, 64))
	return st.bin(OpURem, st.Add(days, BV(4, 64)), BV(7, 64)) // 1970-01-01 was a Thursday
}

type timeComp struct {
	what string
	of   *Term
}

func icTimeComponent(what string) interceptFn {
	return func(fr *frame, args []value) value {
		t := args[0].(timeVal)
		m := fr.m
		t = timeVal{ns: m.localNs(t)}
		if t.ns.IsConst() {
			tt := nsToTime(t.ns.c)
			var v int
			switch what {
			case "year":
				v = tt.Year()
			case "month":
				v = int(tt.Month())
			case "day":
				v = tt.Day()
			case "hour":
				v = tt.Hour()
			case "minute":
				v = tt.Minute()
			case "second":
				v = tt.Second()
			case "nanosecond":
				v = tt.Nanosecond()
			}
			return BV(uint64(v), 64)
		}
		// symbolic: an opaque component, meaningful only to time.Date
		name := fmt.Sprintf("%s-of-t%d", what, t.ns.id)
		v := m.st().Var(name, KBV, 64)
		if m.timeComps == nil {
			m.timeComps = map[*Term]timeComp{}
		}
		m.timeComps[v] = timeComp{what, t.ns}
		return v
	}
}

func icTimeDate(fr *frame, args []value) value {
	m := fr.m
	st := m.st()
	allConst := true
	for i := 0; i < 7; i++ {
		if !args[i].(*Term).IsConst() {
			allConst = false
		}
	}
	if loc := locName(args[7]); loc != "" {
		l, err := time.LoadLocation(loc)
		if err != nil || !allConst {
			panic(pathAbort{"time.Date in a zone other than UTC with symbolic components"})
		}
		g := func(i int) int { return int(sext64(args[i].(*Term).c, 64)) }
		r := time.Date(g(0), time.Month(g(1)), g(2), g(3), g(4), g(5), g(6), l)
		return timeVal{ns: BV(uint64(r.UnixNano()), 64), loc: loc}
	}
	if allConst {
		g := func(i int) int { return int(sext64(args[i].(*Term).c, 64)) }
		r := time.Date(g(0), time.Month(g(1)), g(2), g(3), g(4), g(5), g(6), time.UTC)
		return timeVal{ns: BV(uint64(r.UnixNano()), 64)}
	}
	// "truncate to UTC midnight": Date(t.Year(), t.Month(), t.Day(), 0,0,0,0, UTC)
	y, ok1 := m.timeComps[args[0].(*Term)]
	mo, ok2 := m.timeComps[args[1].(*Term)]
	d, ok3 := m.timeComps[args[2].(*Term)]
	zeros := true
	for i := 3; i < 7; i++ {
		if t := args[i].(*Term); !t.IsConst() || t.c != 0 {
			zeros = false
		}
	}
	if ok1 && ok2 && ok3 && zeros && y.what == "year" && mo.what == "month" && d.what == "day" && y.of == mo.of && y.of == d.of {
		if m.inTimeWindow(y.of) {
			return timeVal{ns: m.dayChain(y.of, func(d uint64) *Term { return BV(d, 64) })}
		}
		return timeVal{ns: st.Sub(y.of, st.bin(OpURem, y.of, BV(nsPerDay, 64)))}
	}
	// General case inside a declared time window: the symbolic arguments are
	// expressions over calendar components of instants of the window (and
	// possibly other values such as a weekday).  Fix the UTC day of each such
	// instant on this path (a fork per feasible day), replace the component
	// variables by the concrete calendar values and let the solver enumerate
	// what is left (with the days fixed there is normally one value).
	if m.timeWinHi != 0 {
		first := m.timeWinLo - m.timeWinLo%nsPerDay
		repl := map[*Term]*Term{}
		ok := true
		for i := 0; i < 7 && ok; i++ {
			t := args[i].(*Term)
			if t.IsConst() {
				continue
			}
			for _, v := range collectVars([]*Term{t}) {
				tc, isComp := m.timeComps[v]
				if !isComp {
					continue
				}
				if _, done := repl[v]; done {
					continue
				}
				if !m.inTimeWindow(tc.of) {
					ok = false
					break
				}
				idx := m.dayChain(tc.of, func(d uint64) *Term { return BV((d-first)/nsPerDay, 64) })
				k := m.concretize(idx, "day of an instant")
				day := nsToTime(first + k*nsPerDay)
				switch tc.what {
				case "year":
					repl[v] = BV(uint64(day.Year()), 64)
				case "month":
					repl[v] = BV(uint64(day.Month()), 64)
				case "day":
					repl[v] = BV(uint64(day.Day()), 64)
				default:
					ok = false
				}
			}
		}
		if ok {
			conc := make([]int, 7)
			for i := 0; i < 7; i++ {
				t := st.subst(args[i].(*Term), repl)
				if !t.IsConst() {
					t = BV(m.concretize(t, "argument of time.Date"), 64)
				}
				conc[i] = int(sext64(t.c, 64))
			}
			r := time.Date(conc[0], time.Month(conc[1]), conc[2], conc[3], conc[4], conc[5], conc[6], time.UTC)
			return timeVal{ns: BV(uint64(r.UnixNano()), 64)}
		}
	}
	panic(pathAbort{"time.Date with symbolic components other than midnight truncation"})
}

func icTimeFormat(fr *frame, args []value) value {
	t := args[0].(timeVal)
	layout, ok := args[1].(string)
	if !ok {
		panic(pathAbort{"symbolic time layout"})
	}
	zone := ""
	if t.loc != "" {
		zone = "@" + t.loc
	}
	if t.ns.IsConst() {
		tt := nsToTime(t.ns.c)
		if l, err := time.LoadLocation(t.loc); t.loc != "" && err == nil {
			tt = tt.In(l)
		}
		return tt.Format(layout)
	}
	return &SymStr{parts: []strPart{{kind: "time:" + layout + zone, args: []*Term{t.ns}, n: -1}}}
}

func icTimeString(fr *frame, args []value) value {
	t := args[0].(timeVal)
	if t.ns.IsConst() {
		tt := nsToTime(t.ns.c)
		if l, err := time.LoadLocation(t.loc); t.loc != "" && err == nil {
			tt = tt.In(l)
		}
		return tt.String()
	}
	return &SymStr{parts: []strPart{{kind: "time:String@" + t.loc, args: []*Term{t.ns}, n: -1}}}
}

func icTimeCmp(op string) interceptFn {
	return func(fr *frame, args []value) value {
		a, b := args[0].(timeVal).ns, args[1].(timeVal).ns
		st := fr.m.st()
		switch op {
		case "eq":
			return st.Eq(a, b)
		case "lt":
			return st.SLt(a, b)
		default:
			return st.SLt(b, a)
		}
	}
}

func icTimeIsZero(fr *frame, args []value) value {
	return fr.m.st().Eq(args[0].(timeVal).ns, BV(zeroTimeNs, 64))
}

func icTimeUnix(div uint64) interceptFn {
	return func(fr *frame, args []value) value {
		st := fr.m.st()
		ns := args[0].(timeVal).ns
		if div == 1 {
			return ns
		}
		return st.bin(OpSDiv, ns, BV(div, 64))
	}
}

func icDurationDiv(div uint64) interceptFn {
	return func(fr *frame, args []value) value {
		st := fr.m.st()
		d := args[0].(*Term)
		if div == 1 {
			return d
		}
		return st.bin(OpSDiv, d, BV(div, 64))
	}
}

func icDurationString(fr *frame, args []value) value {
	d := args[0].(*Term)
	if d.IsConst() {
		return time.Duration(sext64(d.c, 64)).String()
	}
	return &SymStr{parts: []strPart{{kind: "duration", args: []*Term{d}, n: -1}}}
}
