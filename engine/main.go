package main

import (
	"encoding/json"
	"flag"
	"fmt"
	"io"
	"math/rand"
	"os"
	"path/filepath"
	"runtime"
	"runtime/pprof"
	"sort"
	"strings"
	"time"

	"golang.org/x/tools/go/ssa"
)

var logw io.Writer = os.Stderr

type harnessConfig struct {
	Solver        string `json:"solver"`
	TimeoutMs     int    `json:"timeout_ms"`
	MaxDecisions  int    `json:"max_decisions"`
	MaxConcretize int    `json:"max_concretize"`
	MaxInstr      int64  `json:"max_instr"`
	MaxPaths      int    `json:"max_paths"`
	ThoroughOnly  bool   `json:"thorough_only"`
	SecondSolver  string `json:"second_solver"`
}

type knownFinding struct {
	ID       string `json:"id"`
	Property string `json:"property"`
	Status   string `json:"status"` // open | fixed
	What     string `json:"what"`
	Commit   string `json:"commit,omitempty"`
	Harness  string `json:"harness,omitempty"`
}

func main() {
	if len(os.Args) < 2 {
		fmt.Fprintln(os.Stderr, "usage: gosym check <property> [flags] | gosym replay <file> | gosym list")
		os.Exit(2)
	}
	cmd := os.Args[1]
	fs := flag.NewFlagSet(cmd, flag.ExitOnError)
	tier := fs.String("tier", envOr("VERIF_TIER", "quick"), "quick or thorough")
	repo := fs.String("repo", envOr("VERIF_REPO", "/repo"), "repository root")
	verif := fs.String("verif", envOr("VERIF_DIR", "/verif"), "verification root")
	workers := fs.Int("workers", runtime.NumCPU(), "parallel workers")
	only := fs.String("harness", "", "run only harnesses whose name contains this")
	noReplay := fs.Bool("no-replay", false, "skip native replay of counterexamples")
	noEvidence := fs.Bool("no-evidence", false, "do not write the evidence file")
	verbose := fs.Bool("v", false, "verbose")
	var prop string
	rest := os.Args[2:]
	if len(rest) > 0 && !strings.HasPrefix(rest[0], "-") {
		prop = rest[0]
		rest = rest[1:]
	}
	fs.Parse(rest)
	seed := int64(1)
	if s := os.Getenv("VERIF_SEED"); s != "" {
		fmt.Sscan(s, &seed)
	}
	if pf := os.Getenv("GOSYM_PROF"); pf != "" {
		f, err := os.Create(pf)
		if err == nil {
			pprof.StartCPUProfile(f)
			defer pprof.StopCPUProfile()
		}
	}
	switch cmd {
	case "check":
		code := runCheck(prop, *tier, *repo, *verif, *workers, *only, seed, !*noReplay, !*noEvidence, *verbose)
		pprof.StopCPUProfile()
		os.Exit(code)
	case "check-unused":
		os.Exit(runCheck(prop, *tier, *repo, *verif, *workers, *only, seed, !*noReplay, !*noEvidence, *verbose))
	case "replay":
		os.Exit(runReplayCmd(prop, *repo, *verif))
	default:
		fmt.Fprintln(os.Stderr, "unknown command", cmd)
		os.Exit(2)
	}
}

func envOr(k, d string) string {
	if v := os.Getenv(k); v != "" {
		return v
	}
	return d
}

func loadKnown(verifDir string) []knownFinding {
	var kf struct {
		Findings []knownFinding `json:"findings"`
	}
	data, err := os.ReadFile(filepath.Join(verifDir, "known_findings.json"))
	if err != nil {
		return nil
	}
	if err := json.Unmarshal(data, &kf); err != nil {
		fmt.Fprintln(os.Stderr, "known_findings.json:", err)
		os.Exit(2)
	}
	return kf.Findings
}

func loadHarnessConfig(verifDir string) map[string]harnessConfig {
	cfg := map[string]harnessConfig{}
	data, err := os.ReadFile(filepath.Join(verifDir, "harness", "config.json"))
	if err != nil {
		return cfg
	}
	if err := json.Unmarshal(data, &cfg); err != nil {
		fmt.Fprintln(os.Stderr, "harness/config.json:", err)
		os.Exit(2)
	}
	return cfg
}

func findHarnesses(p *Program, prop, only string, tier int, cfgs map[string]harnessConfig) []*Harness {
	var hs []*Harness
	prefix := "Verif" + prop + "_"
	for path, pkg := range p.pkgs {
		if !strings.HasPrefix(path, repoModule) {
			continue
		}
		for name, mem := range pkg.Members {
			fn, ok := mem.(*ssa.Function)
			if !ok || !strings.HasPrefix(name, prefix) {
				continue
			}
			if only != "" && !strings.Contains(name, only) {
				continue
			}
			c := cfgs[name]
			if c.ThoroughOnly && tier == 0 {
				continue
			}
			h := &Harness{Name: name, Pkg: path, Fn: fn, Solver: "z3-new", TimeoutMs: 10000,
				MaxDecisions: 4000, MaxConcretize: 1100, MaxInstr: 20000000, MaxPaths: 400000}
			if tier == 1 {
				h.TimeoutMs = 60000
			}
			if c.Solver != "" {
				h.Solver = c.Solver
			}
			// GOSYM_SOLVER / GOSYM_SOLVER_LIA: run the same queries on another
			// solver (cross-check of the back ends, DESIGN.md section 2.3)
			if ov := os.Getenv("GOSYM_SOLVER"); ov != "" && !strings.HasSuffix(h.Solver, "-lia") {
				h.Solver = ov
			}
			if ov := os.Getenv("GOSYM_SOLVER_LIA"); ov != "" && strings.HasSuffix(h.Solver, "-lia") {
				h.Solver = ov
			}
			if c.TimeoutMs != 0 {
				h.TimeoutMs = c.TimeoutMs
			}
			if c.MaxDecisions != 0 {
				h.MaxDecisions = c.MaxDecisions
			}
			if c.MaxConcretize != 0 {
				h.MaxConcretize = c.MaxConcretize
			}
			if c.MaxInstr != 0 {
				h.MaxInstr = c.MaxInstr
			}
			if c.MaxPaths != 0 {
				h.MaxPaths = c.MaxPaths
			}
			if ov := os.Getenv("GOSYM_MAXPATHS"); ov != "" {
				fmt.Sscan(ov, &h.MaxPaths)
			}
			hs = append(hs, h)
		}
	}
	sort.Slice(hs, func(i, j int) bool { return hs[i].Name < hs[j].Name })
	return hs
}

type replayOutcome struct {
	Confirmed bool
	Detail    string
}

func runCheck(prop, tierName, repoDir, verifDir string, workers int, only string, seed int64, doReplay, writeEv, verbose bool) int {
	start := time.Now()
	tier := 0
	if tierName == "thorough" {
		tier = 1
	}
	if prop == "" {
		fmt.Fprintln(os.Stderr, "check: property id required")
		return 2
	}
	known := loadKnown(verifDir)
	loadBounds(verifDir)
	p, err := loadProgram(repoDir, verifDir)
	if err != nil {
		fmt.Fprintln(os.Stderr, "gosym: cannot load the repository:", err)
		return 2
	}
	p.tier = tier
	p.seed = seed
	for _, k := range known {
		if k.Status == "open" {
			p.knownOpen[k.ID] = true
		}
	}
	p.precomputeIntercepts()
	loadT := time.Since(start)
	if verbose {
		fmt.Fprintf(os.Stderr, "loaded %d packages in %v\n", len(p.pkgs), loadT)
	}
	if err := validateCRCModel(p, seed); err != nil {
		fmt.Fprintln(os.Stderr, "gosym: CRC model validation failed:", err)
		return 2
	}
	cfgs := loadHarnessConfig(verifDir)
	hs := findHarnesses(p, prop, only, tier, cfgs)
	if len(hs) == 0 {
		fmt.Fprintf(os.Stderr, "gosym: no harness functions Verif%s_* found\n", prop)
		return 2
	}
	var results []*HarnessResult
	broken := false
	for _, h := range hs {
		r := runHarness(p, h, workers)
		results = append(results, r)
		if verbose || r.EngineError != "" {
			fmt.Fprintf(os.Stderr, "%s: paths=%d ok=%d panics=%d dead=%d aborts=%d asserts=%d proved=%d unknown=%d viol=%d queries=%d solver=%.1fs wall=%.1fs\n",
				h.Name, r.Paths, r.OK, r.Panics, r.Dead, r.Aborts, r.Asserts, r.Proved, r.Unknown, len(r.Violations),
				r.Solver.Queries, r.Solver.Time.Seconds(), r.Wall.Seconds())
			for why, n := range r.AbortWhy {
				fmt.Fprintf(os.Stderr, "   abort x%d: %s\n", n, why)
			}
			if verbose {
				for why, n := range r.PanicWhy {
					fmt.Fprintf(os.Stderr, "   panic x%d: %s\n", n, why)
				}
			}
		}
		if r.EngineError != "" {
			fmt.Fprintf(os.Stderr, "gosym: %s\n", r.EngineError)
			broken = true
		}
	}
	if broken {
		return 2
	}

	// conformance: the interpreter against the native build on random inputs
	confN := 0
	confFail := ""
	if doReplay {
		n := 6
		if tier == 1 {
			n = 40
		}
		confN, confFail = conformance(p, hs, n, seed)
		if confFail != "" {
			// decided after the counterexamples are classified: a tree that
			// breaks the property may well behave differently natively (state
			// carried from one case to the next in the native process); a
			// confirmed counterexample then is the verdict, else the check is
			// broken (exit 2)
			fmt.Fprintln(os.Stderr, "gosym: conformance failure (interpreter and native build disagree):", confFail)
		}
	}

	// classify violations
	type finding struct {
		v       Violation
		outcome replayOutcome
		file    string
	}
	var newViol, knownViol, unconfirmed []finding
	replays := 0
	seen := map[string]int{}
	for _, r := range results {
		for _, v := range r.Violations {
			key := v.Harness + "|" + v.Kind + "|" + v.Label + "|" + strings.Join(v.Known, ",")
			seen[key]++
			if seen[key] > 2 {
				continue
			}
			f := finding{v: v}
			f.file = writeReplayFile(verifDir, prop, v, tier)
			if doReplay {
				f.outcome = replayNative(p, f.file)
				replays++
			} else {
				f.outcome = replayOutcome{Confirmed: true, Detail: "replay skipped"}
			}
			switch {
			case !f.outcome.Confirmed:
				unconfirmed = append(unconfirmed, f)
			case len(v.Known) > 0:
				knownViol = append(knownViol, f)
			default:
				newViol = append(newViol, f)
			}
		}
	}

	exit := 0
	for _, k := range known {
		if k.Property != prop || k.Status != "open" {
			continue
		}
		hit := false
		for _, f := range knownViol {
			for _, id := range f.v.Known {
				if id == k.ID {
					hit = true
				}
			}
		}
		if hit {
			fmt.Printf("KNOWN-FINDING: property=%s %s: %s\n", prop, k.ID, k.What)
		} else {
			fmt.Fprintf(os.Stderr, "note: known finding %s was not reproduced by this run\n", k.ID)
		}
	}
	for _, f := range newViol {
		fmt.Printf("VIOLATION property=%s replay=%s\n", prop, f.file)
		fmt.Printf("  harness=%s kind=%s label=%s %s %s\n", f.v.Harness, f.v.Kind, f.v.Label, f.v.Detail, f.outcome.Detail)
		exit = 1
	}
	if confFail != "" && exit == 0 {
		return 2
	}
	for _, f := range unconfirmed {
		fmt.Fprintf(os.Stderr, "warning: unconfirmed counterexample (does not replay natively): %s %s %s: %s (%s)\n",
			f.v.Harness, f.v.Kind, f.v.Label, f.outcome.Detail, f.file)
	}

	// undecided parts
	totalAborts, totalUnknown, witnesses := 0, 0, 0
	for _, r := range results {
		totalAborts += r.Aborts
		totalUnknown += r.Unknown
		witnesses += r.Witnesses
		if r.BudgetHit {
			fmt.Fprintf(os.Stderr, "note: %s: path budget reached, exploration incomplete\n", r.Name)
		}
		if r.Witnesses == 0 && r.Aborts == 0 {
			fmt.Fprintf(os.Stderr, "gosym: harness %s reached no reachability witness (vacuous harness?)\n", r.Name)
			exit = 2
		} else if r.Witnesses == 0 {
			// every path ended at an unsupported construct or a limit before
			// the harness proper started (a package initialiser, say):
			// nothing was decided, which is not a verdict and not a defect
			// of the harness
			fmt.Fprintf(os.Stderr, "note: %s: no path was decided (all %d paths ended at an unsupported construct or limit)\n", r.Name, r.Aborts)
		}
	}
	if totalAborts > 0 || totalUnknown > 0 {
		fmt.Fprintf(os.Stderr, "note: %d paths not decided (unsupported construct or limit), %d solver answers unknown\n", totalAborts, totalUnknown)
	}

	if writeEv {
		ev := buildEvidence(prop, tierName, seed, hs, results, confN, replays, len(newViol), len(knownViol), len(unconfirmed), time.Since(start), loadT)
		if err := writeEvidence(verifDir, prop, ev); err != nil {
			fmt.Fprintln(os.Stderr, "gosym: cannot write evidence:", err)
			return 2
		}
	}
	if exit == 0 {
		fmt.Printf("OK property=%s tier=%s harnesses=%d paths=%d asserts=%d wall=%.1fs\n", prop, tierName, len(hs), sumPaths(results), sumAsserts(results), time.Since(start).Seconds())
	}
	return exit
}

func sumPaths(rs []*HarnessResult) int {
	n := 0
	for _, r := range rs {
		n += r.Paths
	}
	return n
}
func sumAsserts(rs []*HarnessResult) int {
	n := 0
	for _, r := range rs {
		n += r.Asserts
	}
	return n
}

func buildEvidence(prop, tier string, seed int64, hs []*Harness, rs []*HarnessResult, confN, replays, nviol, nknown, nunconf int, wall, loadT time.Duration) map[string]interface{} {
	paths, instr, asserts, proved, unknown, aborts, panics, dead := 0, int64(0), 0, 0, 0, 0, 0, 0
	implicit := int64(0)
	var st SolverStats
	funcs := map[string]bool{}
	var samples []interface{}
	perH := []map[string]interface{}{}
	abortWhy := map[string]int{}
	for _, r := range rs {
		paths += r.Paths
		instr += r.NInstr
		asserts += r.Asserts
		proved += r.Proved
		unknown += r.Unknown
		aborts += r.Aborts
		panics += r.Panics
		dead += r.Dead
		implicit += r.Implicit
		addStats(&st, &r.Solver)
		for f := range r.Funcs {
			if !strings.Contains(f, "Verif") && !strings.Contains(f, "verif") {
				funcs[f] = true
			}
		}
		for i, s := range r.Samples {
			if i < 2 {
				samples = append(samples, s)
			}
		}
		for k, v := range r.AbortWhy {
			abortWhy[r.Name+": "+k] += v
		}
		perH = append(perH, map[string]interface{}{"harness": r.Name, "paths": r.Paths, "paths_ok": r.OK,
			"paths_cut_at_panic": r.Panics, "paths_infeasible": r.Dead, "paths_not_decided": r.Aborts,
			"asserts": r.Asserts, "unsat": r.Proved, "witnesses": r.Witnesses, "queries": r.Solver.Queries,
			"solver_time_s": r.Solver.Time.Seconds(), "wall_s": r.Wall.Seconds(), "budget_hit": r.BudgetHit})
	}
	var fl []string
	for f := range funcs {
		fl = append(fl, f)
	}
	sort.Strings(fl)
	if len(samples) == 0 {
		samples = append(samples, map[string]string{"note": "no symbolic obligation on this run"})
	}
	solvers := map[string]bool{}
	for _, h := range hs {
		solvers[h.Solver] = true
	}
	var sl []string
	for s := range solvers {
		sl = append(sl, s)
	}
	sort.Strings(sl)
	cov := map[string]interface{}{
		"states":                        paths,
		"transitions":                   instr,
		"traces_validated_against_impl": confN + replays,
		"samples":                       samples,
		"functions_encoded":             fl,
		"harnesses":                     perH,
		"obligations":                   asserts,
		"implicit_safety_conditions":    implicit,
		"unsat":                         proved,
		"unknown":                       unknown,
		"paths_not_decided":             aborts,
		"not_decided_reasons":           abortWhy,
		"paths_cut_at_panic":            panics,
		"queries":                       st.Queries,
		"solver_sat":                    st.Sat,
		"solver_unsat":                  st.Unsat,
		"solver_unknown":                st.Unknown,
		"solver_errors":                 st.Errors,
		"solver_time_s":                 st.Time.Seconds(),
		"solver_max_query_ms":           st.MaxMs,
		"solvers":                       sl,
		"conformance_runs":              confN,
		"native_replays":                replays,
		"violations_new":                nviol,
		"violations_known":              nknown,
		"counterexamples_unconfirmed":   nunconf,
		"load_s":                        loadT.Seconds(),
		"bounds":                        boundsText[prop],
		"outside_bounds":                outsideText[prop],
		"exhaustive":                    exhaustiveProp[prop] && aborts == 0 && unknown == 0 && nviol == 0,
	}
	return map[string]interface{}{
		"property_id": prop,
		"tier":        tier,
		"seed":        seed,
		"level":       "model_checking",
		"coverage":    cov,
		"assumptions": assumptionsText(prop),
		"wall_s":      wall.Seconds(),
		"violations":  nviol,
	}
}

func writeEvidence(verifDir, prop string, ev map[string]interface{}) error {
	dir := filepath.Join(verifDir, "evidence")
	os.MkdirAll(dir, 0o755)
	data, err := json.MarshalIndent(ev, "", " ")
	if err != nil {
		return err
	}
	return os.WriteFile(filepath.Join(dir, prop+".json"), data, 0o644)
}

func writeReplayFile(verifDir, prop string, v Violation, tier int) string {
	dir := filepath.Join(verifDir, "replays")
	os.MkdirAll(dir, 0o755)
	rc := replayCase{Harness: v.Harness, Inputs: v.Inputs, Params: v.Params, Tier: tier, Expect: v.Kind, Label: v.Label, Detail: v.Detail, Known: v.Known}
	data, _ := json.MarshalIndent(rc, "", " ")
	h := uint32(2166136261)
	for _, b := range data {
		h = (h ^ uint32(b)) * 16777619
	}
	file := filepath.Join(dir, fmt.Sprintf("%s-%s-%08x.json", prop, v.Harness, h))
	os.WriteFile(file, data, 0o644)
	return file
}

var _ = rand.New
