package main

// Loading /repo's current working tree (plus the harness overlay) into SSA.

import (
	"fmt"
	"go/types"
	"math/rand"
	"os"
	"path/filepath"
	"sort"
	"strings"
	"sync"

	"golang.org/x/tools/go/packages"
	"golang.org/x/tools/go/ssa"
	"golang.org/x/tools/go/ssa/ssautil"
)

const (
	repoModule = "github.com/goblimey/go-ntrip"
	harnessTag = "verifharness"
)

type interceptFn func(fr *frame, args []value) value

type Program struct {
	prog       *ssa.Program
	pkgs       map[string]*ssa.Package
	repoPkgs   []*ssa.Package // in dependency order
	repoDir    string
	verifDir   string
	knownOpen  map[string]bool
	tier       int
	seed       int64
	icache     map[*ssa.Function]interceptFn
	icacheDone map[*ssa.Function]bool
	overlay    map[string][]byte
	harnessPkg map[string]bool // package paths that received harness files

	sampleMu    sync.Mutex
	pathSamples map[string][]replayCase
	sampleSeen  map[string]int
}

// wantSample: reservoir of at most 300 path witnesses per harness.
func (p *Program) wantSample(h string) bool {
	p.sampleMu.Lock()
	defer p.sampleMu.Unlock()
	if p.sampleSeen == nil {
		p.sampleSeen = map[string]int{}
		p.pathSamples = map[string][]replayCase{}
	}
	p.sampleSeen[h]++
	n := p.sampleSeen[h]
	return n <= 300 || n%17 == 0
}

func (p *Program) addSample(rc replayCase) {
	p.sampleMu.Lock()
	defer p.sampleMu.Unlock()
	if len(p.pathSamples[rc.Harness]) < 600 {
		p.pathSamples[rc.Harness] = append(p.pathSamples[rc.Harness], rc)
	}
}

const crcPkgPath = "github.com/goblimey/go-crc24q/crc24q"

// validateCRCAgainstSource interprets the dependency's real Hash (with its
// real table initialiser) on random vectors and compares with the bitwise
// CRC-24Q used to build the linear model.
func (p *Program) validateCRCAgainstSource(rng *rand.Rand) error {
	pkg := p.pkgs[crcPkgPath]
	if pkg == nil {
		return fmt.Errorf("package %s not loaded", crcPkgPath)
	}
	hash := pkg.Func("Hash")
	var failure error
	h := &Harness{Name: "crc-validation", Fn: hash, Solver: "z3-new", TimeoutMs: 1000, MaxDecisions: 10, MaxConcretize: 10, MaxInstr: 50000000, MaxPaths: 1}
	w := &Worker{st: NewStore()}
	m := &Machine{p: p, w: w, h: h, pcKnow: map[*Term]bool{}, funcs: map[*ssa.Function]bool{}, inputs: map[string]*Term{},
		params: map[string]int64{}, globals: map[*ssa.Global]*value{}, maxInstr: h.MaxInstr, rawCRC: true}
	m.model = map[string]uint64{}
	m.entry = func(g *G) {
		m.callSSA(nil, g, 0, pkg.Func("init"), nil, nil)
		for trial := 0; trial < 24; trial++ {
			n := 1 + rng.Intn(40)
			if trial == 0 {
				n = 1029
			}
			data := make([]byte, n)
			rng.Read(data)
			arg := make([]value, n)
			for i := range arg {
				arg[i] = BV(uint64(data[i]), 8)
			}
			r := m.callSSA(nil, g, 0, hash, []value{arg}, nil).(*Term)
			if !r.IsConst() || uint32(r.c) != crc24qNative(data) {
				failure = fmt.Errorf("crc24q.Hash (interpreted from source) = %#x, bitwise CRC-24Q = %#x on a %d-byte vector", r.c, crc24qNative(data), n)
				return
			}
		}
	}
	func() {
		defer func() {
			if r := recover(); r != nil {
				failure = fmt.Errorf("interpreting crc24q.Hash: %v", r)
			}
		}()
		m.runMain()
	}()
	if failure == nil && m.res.Outcome != "ok" {
		failure = fmt.Errorf("interpreting crc24q.Hash ended with %s: %s", m.res.Outcome, m.res.Detail)
	}
	return failure
}

// harnessOverlay maps the files under verifDir/harness into the repository.
func harnessOverlay(verifDir, repoDir string) (map[string][]byte, map[string]bool, error) {
	ov := map[string][]byte{}
	pkgs := map[string]bool{}
	root := filepath.Join(verifDir, "harness")
	shared, err := os.ReadFile(filepath.Join(root, "_shared", "intrinsics.go.txt"))
	if err != nil {
		return nil, nil, err
	}
	sharedTest, err := os.ReadFile(filepath.Join(root, "_shared", "replay_test.go.txt"))
	if err != nil {
		return nil, nil, err
	}
	err = filepath.Walk(root, func(path string, info os.FileInfo, err error) error {
		if err != nil {
			return err
		}
		if info.IsDir() || !strings.HasSuffix(path, ".go") {
			return nil
		}
		rel, _ := filepath.Rel(root, path)
		if strings.HasPrefix(rel, "_shared") {
			return nil
		}
		data, err := os.ReadFile(path)
		if err != nil {
			return err
		}
		ov[filepath.Join(repoDir, rel)] = data
		dir := filepath.Dir(rel)
		if !pkgs[dir] {
			pkgs[dir] = true
			pkgName := packageClause(data)
			ov[filepath.Join(repoDir, dir, "zz_verif_intrinsics.go")] =
				[]byte(strings.Replace(string(shared), "package PKG", "package "+pkgName, 1))
			ov[filepath.Join(repoDir, dir, "zz_verif_replay_test.go")] =
				[]byte(strings.Replace(string(sharedTest), "package PKG", "package "+pkgName, 1))
		}
		return nil
	})
	return ov, pkgs, err
}

func packageClause(src []byte) string {
	for _, line := range strings.Split(string(src), "\n") {
		line = strings.TrimSpace(line)
		if strings.HasPrefix(line, "package ") {
			return strings.Fields(line)[1]
		}
	}
	return "main"
}

func loadProgram(repoDir, verifDir string) (*Program, error) {
	ov, hpk, err := harnessOverlay(verifDir, repoDir)
	if err != nil {
		return nil, err
	}
	loadOv := map[string][]byte{}
	for k, v := range ov {
		if !strings.HasSuffix(k, "_test.go") {
			loadOv[k] = v
		}
	}
	cfg := &packages.Config{
		Mode: packages.NeedName | packages.NeedFiles | packages.NeedCompiledGoFiles | packages.NeedImports |
			packages.NeedDeps | packages.NeedTypes | packages.NeedSyntax | packages.NeedTypesInfo |
			packages.NeedTypesSizes | packages.NeedModule,
		Dir:        repoDir,
		Overlay:    loadOv,
		BuildFlags: []string{"-tags=" + harnessTag},
		Env: append(os.Environ(), "GOFLAGS=-mod=mod", "GOPROXY=off", "GOSUMDB=off", "GOTOOLCHAIN=local",
			"GOWORK=off"),
	}
	initial, err := packages.Load(cfg, "./...")
	if err != nil {
		return nil, err
	}
	nerr := 0
	packages.Visit(initial, nil, func(p *packages.Package) {
		for _, e := range p.Errors {
			if strings.HasPrefix(p.PkgPath, repoModule) {
				fmt.Fprintf(os.Stderr, "load error: %s: %v\n", p.PkgPath, e)
				nerr++
			}
		}
	})
	if nerr > 0 {
		return nil, fmt.Errorf("%d errors loading /repo (does it compile with the harness overlay?)", nerr)
	}
	prog, _ := ssautil.AllPackages(initial, ssa.InstantiateGenerics)
	prog.Build()
	p := &Program{prog: prog, pkgs: map[string]*ssa.Package{}, repoDir: repoDir, verifDir: verifDir,
		knownOpen: map[string]bool{}, icache: map[*ssa.Function]interceptFn{}, icacheDone: map[*ssa.Function]bool{},
		overlay: ov, harnessPkg: map[string]bool{}}
	for d := range hpk {
		p.harnessPkg[repoModule+"/"+filepath.ToSlash(d)] = true
	}
	for _, pkg := range prog.AllPackages() {
		p.pkgs[pkg.Pkg.Path()] = pkg
	}
	// dependency order of the interpreted packages
	seen := map[*types.Package]bool{}
	var visit func(tp *types.Package)
	visit = func(tp *types.Package) {
		if seen[tp] {
			return
		}
		seen[tp] = true
		imps := tp.Imports()
		sort.Slice(imps, func(i, j int) bool { return imps[i].Path() < imps[j].Path() })
		for _, imp := range imps {
			visit(imp)
		}
		if interpretedPkg(tp.Path()) {
			if sp := p.pkgs[tp.Path()]; sp != nil {
				p.repoPkgs = append(p.repoPkgs, sp)
			}
		}
	}
	var paths []string
	for path := range p.pkgs {
		paths = append(paths, path)
	}
	sort.Strings(paths)
	for _, path := range paths {
		if strings.HasPrefix(path, repoModule) {
			visit(p.pkgs[path].Pkg)
		}
	}
	return p, nil
}

// interpretedPkg: packages whose function bodies are executed from SSA.
// Everything else must be intercepted (intercepts.go) or the path aborts.
func interpretedPkg(path string) bool {
	if strings.HasPrefix(path, repoModule) {
		return true
	}
	switch path {
	case "github.com/goblimey/go-crc24q/crc24q", "errors", "sort", "slices", "cmp", "unicode/utf8", "bytes", "math/bits", "bufio", "encoding/binary", "sync/atomic":
		return true
	}
	return false
}

func (p *Program) interpreted(fn *ssa.Function) bool {
	if fn.Pkg == nil {
		// synthetic wrappers, bound methods, instantiations
		if fn.Synthetic != "" {
			if o := fn.Origin(); o != nil && o.Pkg != nil {
				return interpretedPkg(o.Pkg.Pkg.Path())
			}
			return true
		}
		return false
	}
	return interpretedPkg(fn.Pkg.Pkg.Path())
}

func (p *Program) intercept(fn *ssa.Function) interceptFn {
	if p.icacheDone[fn] {
		return p.icache[fn]
	}
	// not cached: compute (callers hold no lock; Program maps are only
	// written here, so precompute for all functions at start-up instead)
	return lookupIntercept(fn)
}

func (p *Program) precomputeIntercepts() {
	for fn := range ssautil.AllFunctions(p.prog) {
		if fn.Parent() != nil {
			continue
		}
		p.icache[fn] = lookupIntercept(fn)
		p.icacheDone[fn] = true
	}
}

// initGlobals runs the package initialisers of the interpreted packages (in
// dependency order) and sets the standard-library globals the code reads.
func (p *Program) initGlobals(m *Machine, g *G) {
	// error sentinels of uninterpreted packages
	for _, s := range []struct{ pkg, name, msg string }{
		{"io", "EOF", "EOF"},
		{"io", "ErrUnexpectedEOF", "unexpected EOF"},
		{"io", "ErrShortWrite", "short write"},
		{"io", "ErrClosedPipe", "io: read/write on closed pipe"},
		{"os", "ErrNotExist", "file does not exist"},
		{"os", "ErrDeadlineExceeded", "i/o timeout"},
	} {
		pkg := p.pkgs[s.pkg]
		if pkg == nil {
			continue
		}
		gl, _ := pkg.Members[s.name].(*ssa.Global)
		if gl == nil {
			continue
		}
		*m.global(gl) = m.newError(g, s.msg)
	}
	for _, name := range []string{"Stdin", "Stdout", "Stderr"} {
		if pkg := p.pkgs["os"]; pkg != nil {
			if gl, _ := pkg.Members[name].(*ssa.Global); gl != nil {
				*m.global(gl) = &opaque{kind: "os." + name}
			}
		}
	}
	// Package initialisers: the harness package's init runs its imports'
	// initialisers in dependency order; initialisers of packages outside the
	// repository module are intercepted as no-ops (lookupIntercept).
	if init := m.h.Fn.Pkg.Func("init"); init != nil {
		m.callSSA(nil, g, 0, init, nil, nil)
	}
}

// newError builds an error value the way errors.New does.
func (m *Machine) newError(g *G, msg value) value {
	ep := m.p.pkgs["errors"]
	fn := ep.Func("New")
	return m.callSSA(nil, g, 0, fn, []value{msg}, nil)
}

// findMethod returns the exported method name of type t, or nil.
func (p *Program) findMethod(t types.Type, name string) *ssa.Function {
	if t == nil {
		return nil
	}
	if _, ok := t.Underlying().(*types.Interface); ok {
		return nil
	}
	sel := p.prog.MethodSets.MethodSet(t).Lookup(nil, name)
	if sel == nil {
		return nil
	}
	return p.prog.MethodValue(sel)
}
