package main

// Cooperative scheduler: interpreted goroutines are real goroutines that
// pass a baton, so exactly one runs at a time and every switch happens at a
// visible operation (channel op, lock, go, sleep, environment call).

import (
	"fmt"
	"go/types"
	"strings"
	"sync"
)

const (
	gRunnable = iota
	gBlocked
	gDone
)

const (
	schedLazy    = 0 // switch only when the running goroutine blocks
	schedRR      = 1 // round-robin: switch at every visible operation
	schedBounded = 2 // explore all schedules with at most N preemptions
)

type G struct {
	id         int
	resume     chan struct{}
	state      int
	recvVal    value
	recvOK     bool
	sendClosed bool
	what       string
	isMain     bool
	nlocks     int // mutexes (read or write) held, for the isolation monitor
}

type waiter struct {
	g   *G
	val value
}

type chanObj struct {
	id     int
	cap    int
	buf    []value
	closed bool
	recvq  []*waiter
	sendq  []*waiter
	elemT  types.Type
	nclose int
}

type mutexState struct {
	locked    bool
	readers   int
	waitq     []*G
	owner     *G         // holder of the write lock
	readersBy map[*G]int // read locks per goroutine
}

type Sched struct {
	m           *Machine
	gs          []*G
	cur         *G
	done        chan struct{}
	doneOnce    sync.Once
	killing     bool
	wg          sync.WaitGroup
	mode        int
	bound       int
	preemptions int
	mutexes     map[*value]*mutexState
	wgs         map[*value]*wgState
	timers      []*timer
	logical     uint64 // logical clock of the timers (ns)
	selectors   []*G   // goroutines blocked in a select, woken by any channel event
	quiet       int    // > 0: channel operations are part of a select (no extra scheduling point)
	nchan       int
	engineErr   string
}

func (s *Sched) signalDone() {
	s.doneOnce.Do(func() { close(s.done) })
}

func (s *Sched) park(g *G) {
	<-g.resume
	if s.killing {
		panic(pathKill{})
	}
}

func (s *Sched) wake(g *G) {
	s.cur = g
	g.resume <- struct{}{}
}

func (s *Sched) runnableOthers(g *G) []*G {
	var r []*G
	n := len(s.gs)
	start := 0
	if g != nil {
		start = g.id + 1
	}
	for k := 0; k < n; k++ {
		x := s.gs[(start+k)%n]
		if x != g && x.state == gRunnable {
			r = append(r, x)
		}
	}
	return r
}

// block parks g until another goroutine makes it runnable and the
// scheduler picks it.
func (s *Sched) block(g *G, what string) {
	g.state = gBlocked
	g.what = what
	s.switchAway(g)
}

func (s *Sched) switchAway(g *G) {
	others := s.runnableOthers(g)
	if len(others) == 0 && g.state != gRunnable && s.jumpToNextTimer() {
		// everything was blocked: time has passed until a timer was due
		if g.state == gRunnable {
			return
		}
		others = s.runnableOthers(g)
	}
	if len(others) == 0 {
		if g.state == gRunnable {
			return // nothing else to run
		}
		s.m.endPath("deadlock", s.describeBlocked(), "")
		s.signalDone()
		s.park(g)
		return
	}
	// A switch forced by blocking goes to the next runnable goroutine in
	// round-robin order in every mode; schedBounded adds choice only at
	// preemptions (visible).  Forking over every runnable goroutine at every
	// blocking operation as well multiplies the schedules beyond reach
	// (measured: > 400 000 paths for one 9-byte frame).
	s.wake(others[0])
	s.park(g)
}

func (s *Sched) describeBlocked() string {
	d := "all goroutines blocked:"
	for _, g := range s.gs {
		if g.state == gBlocked {
			d += fmt.Sprintf(" g%d(%s)", g.id, g.what)
		}
	}
	return d
}

// visible is called by the running goroutine before each visible operation.
func (s *Sched) visible(g *G) {
	if s.quiet > 0 {
		return
	}
	switch s.mode {
	case schedLazy:
		return
	case schedRR:
		if len(s.runnableOthers(g)) > 0 {
			s.switchAway(g)
		}
	case schedBounded:
		if s.preemptions >= s.bound {
			return
		}
		others := s.runnableOthers(g)
		if len(others) == 0 {
			return
		}
		k := s.m.choose(1 + len(others))
		if k == 0 {
			return
		}
		s.preemptions++
		s.wake(others[k-1])
		s.park(g)
	}
}

// yield lets every other runnable goroutine run (used by Sleep).
func (s *Sched) yield(g *G) {
	if len(s.runnableOthers(g)) > 0 {
		s.switchAway(g)
	}
}

// quiesce runs the other goroutines until none of them is runnable.
func (s *Sched) quiesce(g *G) {
	for n := 0; len(s.runnableOthers(g)) > 0; n++ {
		if n > 100000 {
			panic(pathAbort{"quiesce: goroutines do not settle"})
		}
		s.switchAway(g)
	}
}

func (s *Sched) blockedCount() int {
	n := 0
	for _, g := range s.gs {
		if g.state == gBlocked {
			n++
		}
	}
	return n
}

func (s *Sched) liveOthers(g *G) int {
	n := 0
	for _, x := range s.gs {
		if x != g && x.state != gDone {
			n++
		}
	}
	return n
}

// spawn starts fn as a new interpreted goroutine.
func (s *Sched) spawn(body func(g *G), isMain bool) *G {
	g := &G{id: len(s.gs), resume: make(chan struct{}, 1), state: gRunnable, isMain: isMain}
	s.gs = append(s.gs, g)
	s.wg.Add(1)
	go func() {
		defer s.wg.Done()
		defer func() {
			r := recover()
			if r == nil {
				return
			}
			switch r := r.(type) {
			case pathKill:
				return
			case targetPanic:
				s.m.endPath("panic", s.m.panicText(r.v), r.pos)
			case pathDead:
				s.m.endPath("dead", r.why, "")
			case pathAbort:
				s.m.endPath("abort", r.why, "")
			default:
				s.engineErr = fmt.Sprintf("engine panic in harness %s: %v\n%s", s.m.h.Name, r, stackTrace())
				s.m.endPath("abort", "engine error", "")
			}
			g.state = gDone
			s.signalDone()
		}()
		<-g.resume
		if s.killing {
			return
		}
		body(g)
		g.state = gDone
		if g.isMain {
			s.m.endPath("ok", "", "")
			s.signalDone()
			return
		}
		// hand the baton on
		others := s.runnableOthers(g)
		if len(others) == 0 && s.jumpToNextTimer() {
			others = s.runnableOthers(g)
		}
		if len(others) == 0 {
			s.m.endPath("deadlock", s.describeBlocked(), "")
			s.signalDone()
			return
		}
		s.wake(others[0])
	}()
	return g
}

func (m *Machine) endPath(outcome, detail, pos string) {
	if m.res.Outcome != "" {
		return
	}
	m.res.Outcome = outcome
	m.res.Detail = detail
	if (outcome == "panic" && m.ownPanics) || (outcome == "deadlock" && (m.ownPanics || m.ownDeadlocks)) {
		m.reportEnd(outcome, detail, pos)
	}
	// an unwinding or instruction limit hit in a crash-freedom harness is a
	// hang candidate: reported only if the native replay does not finish
	if outcome == "abort" && m.ownPanics && (strings.HasPrefix(detail, "instruction limit") || strings.HasPrefix(detail, "unwinding limit")) {
		m.reportEnd("hang", detail, pos)
	}
}

// ---------------------------------------------------------------- channels

func (s *Sched) newChan(capacity int, elem types.Type) *chanObj {
	s.nchan++
	return &chanObj{id: s.nchan, cap: capacity, elemT: elem}
}

func (s *Sched) send(g *G, ch *chanObj, v value) {
	s.visible(g)
	if ch == nil {
		s.block(g, "send on nil channel")
		panic(engineError{"woken from nil channel send"})
	}
	if ch.closed {
		panic(targetPanic{v: rtErr("send on closed channel")})
	}
	v = copyVal(v)
	if len(ch.recvq) > 0 {
		w := ch.recvq[0]
		ch.recvq = ch.recvq[1:]
		w.g.recvVal, w.g.recvOK = v, true
		w.g.state = gRunnable
		return
	}
	if len(ch.buf) < ch.cap {
		ch.buf = append(ch.buf, v)
		s.wakeSelectors()
		return
	}
	ch.sendq = append(ch.sendq, &waiter{g: g, val: v})
	s.wakeSelectors()
	g.sendClosed = false
	s.block(g, fmt.Sprintf("send on chan#%d", ch.id))
	if g.sendClosed {
		panic(targetPanic{v: rtErr("send on closed channel")})
	}
}

func (s *Sched) recv(g *G, ch *chanObj, elem types.Type) (value, bool) {
	s.visible(g)
	if ch == nil {
		s.block(g, "receive from nil channel")
		panic(engineError{"woken from nil channel receive"})
	}
	if len(ch.buf) > 0 {
		v := ch.buf[0]
		ch.buf = ch.buf[1:]
		s.wakeSelectors()
		if len(ch.sendq) > 0 {
			w := ch.sendq[0]
			ch.sendq = ch.sendq[1:]
			ch.buf = append(ch.buf, w.val)
			w.g.state = gRunnable
		}
		return v, true
	}
	if len(ch.sendq) > 0 {
		w := ch.sendq[0]
		ch.sendq = ch.sendq[1:]
		w.g.state = gRunnable
		return w.val, true
	}
	if ch.closed {
		return zero(elem), false
	}
	ch.recvq = append(ch.recvq, &waiter{g: g})
	s.wakeSelectors()
	s.block(g, fmt.Sprintf("receive on chan#%d", ch.id))
	return g.recvVal, g.recvOK
}

func (s *Sched) closeChan(g *G, ch *chanObj) {
	s.visible(g)
	if ch == nil {
		panic(targetPanic{v: rtErr("close of nil channel")})
	}
	ch.nclose++
	if ch.closed {
		panic(targetPanic{v: rtErr("close of closed channel")})
	}
	ch.closed = true
	s.wakeSelectors()
	for _, w := range ch.recvq {
		w.g.recvVal, w.g.recvOK = zero(ch.elemT), false
		w.g.state = gRunnable
	}
	ch.recvq = nil
	for _, w := range ch.sendq {
		w.g.sendClosed = true
		w.g.state = gRunnable
	}
	ch.sendq = nil
}

// ---------------------------------------------------------------- timers

// Timers (time.After) live on a logical clock that advances by what is slept
// (time.Sleep) or declared to pass (verifAdvanceClock), and -- when every
// goroutine is blocked -- jumps to the earliest pending deadline.  A timer
// that is due delivers one value on its channel.
type timer struct {
	ch       *chanObj
	deadline uint64
	fired    bool
}

func (s *Sched) addTimer(d uint64, elem types.Type) *chanObj {
	ch := s.newChan(1, elem)
	s.timers = append(s.timers, &timer{ch: ch, deadline: s.logical + d})
	return ch
}

// advance moves the logical clock and fires what is due.
func (s *Sched) advance(d uint64) {
	s.logical += d
	s.fireDue()
}

func (s *Sched) fireDue() {
	for _, t := range s.timers {
		if t.fired || t.deadline > s.logical {
			continue
		}
		t.fired = true
		v := timeVal{ns: BV(t.deadline, 64)}
		ch := t.ch
		if len(ch.recvq) > 0 {
			w := ch.recvq[0]
			ch.recvq = ch.recvq[1:]
			w.g.recvVal, w.g.recvOK = v, true
			w.g.state = gRunnable
		} else {
			ch.buf = append(ch.buf, v)
		}
		s.wakeSelectors()
	}
}

// jumpToNextTimer: every goroutine is blocked; if a timer is pending, time
// passes until it is due.  Reports whether anything was fired.
func (s *Sched) jumpToNextTimer() bool {
	var next *timer
	for _, t := range s.timers {
		if !t.fired && (next == nil || t.deadline < next.deadline) {
			next = t
		}
	}
	if next == nil {
		return false
	}
	if next.deadline > s.logical {
		s.logical = next.deadline
	}
	s.fireDue()
	return true
}

// ---------------------------------------------------------------- select

type selCase struct {
	send bool
	ch   *chanObj
	val  value
	elem types.Type
}

func (s *Sched) wakeSelectors() {
	for _, g := range s.selectors {
		if g.state == gBlocked {
			g.state = gRunnable
		}
	}
	s.selectors = nil
}

func (c selCase) ready() bool {
	ch := c.ch
	if ch == nil {
		return false
	}
	if c.send {
		return ch.closed || len(ch.recvq) > 0 || len(ch.buf) < ch.cap
	}
	return len(ch.buf) > 0 || len(ch.sendq) > 0 || ch.closed
}

// selectStmt runs a select statement: index of the chosen case (-1: default),
// the received value and ok flag for a receive case.  Go chooses among the
// ready cases pseudo-randomly: a nondeterministic choice here.
func (s *Sched) selectStmt(g *G, cases []selCase, blocking bool) (int, value, bool) {
	s.visible(g)
	for {
		var ready []int
		for i, c := range cases {
			if c.ready() {
				ready = append(ready, i)
			}
		}
		if len(ready) > 0 {
			k := ready[s.m.choose(len(ready))]
			c := cases[k]
			s.quiet++
			defer func() { s.quiet-- }()
			if c.send {
				s.send(g, c.ch, c.val)
				return k, nil, false
			}
			v, ok := s.recv(g, c.ch, c.elem)
			return k, v, ok
		}
		if !blocking {
			return -1, nil, false
		}
		s.selectors = append(s.selectors, g)
		s.block(g, "select")
	}
}

// ---------------------------------------------------------------- mutexes

func (s *Sched) mutex(p *value) *mutexState {
	ms := s.mutexes[p]
	if ms == nil {
		ms = &mutexState{}
		s.mutexes[p] = ms
	}
	return ms
}

func (s *Sched) lock(g *G, p *value, read bool) {
	s.visible(g)
	ms := s.mutex(p)
	for {
		if read && !ms.locked {
			ms.readers++
			if ms.readersBy == nil {
				ms.readersBy = map[*G]int{}
			}
			ms.readersBy[g]++
			g.nlocks++
			return
		}
		if !read && !ms.locked && ms.readers == 0 {
			ms.locked = true
			ms.owner = g
			g.nlocks++
			return
		}
		ms.waitq = append(ms.waitq, g)
		s.block(g, "mutex")
	}
}

func (s *Sched) unlock(g *G, p *value, read bool) {
	s.visible(g)
	ms := s.mutex(p)
	if g.nlocks > 0 {
		g.nlocks--
	}
	if read {
		if ms.readers == 0 {
			panic(targetPanic{v: rtErr("sync: RUnlock of unlocked RWMutex")})
		}
		ms.readers--
		if ms.readersBy[g] > 0 {
			ms.readersBy[g]--
		}
	} else {
		if !ms.locked {
			panic(targetPanic{v: rtErr("sync: unlock of unlocked mutex")})
		}
		ms.locked = false
		ms.owner = nil
	}
	for _, w := range ms.waitq {
		w.state = gRunnable
	}
	ms.waitq = nil
}

// ---------------------------------------------------------------- wait groups

type wgState struct {
	n     int
	waitq []*G
}

func (s *Sched) wgOf(p *value) *wgState {
	if s.wgs == nil {
		s.wgs = map[*value]*wgState{}
	}
	w := s.wgs[p]
	if w == nil {
		w = &wgState{}
		s.wgs[p] = w
	}
	return w
}

func (s *Sched) wgAdd(g *G, p *value, delta int) {
	s.visible(g)
	w := s.wgOf(p)
	w.n += delta
	if w.n < 0 {
		panic(targetPanic{v: rtErr("sync: negative WaitGroup counter")})
	}
	if w.n == 0 {
		for _, x := range w.waitq {
			x.state = gRunnable
		}
		w.waitq = nil
	}
}

func (s *Sched) wgWait(g *G, p *value) {
	s.visible(g)
	w := s.wgOf(p)
	for w.n > 0 {
		w.waitq = append(w.waitq, g)
		s.block(g, "WaitGroup.Wait")
	}
}

func (s *Sched) heldBy(p *value) (bool, int) {
	ms := s.mutex(p)
	return ms.locked, ms.readers
}
