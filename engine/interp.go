package main

// The SSA interpreter proper.  Structure follows x/tools/go/ssa/interp
// (Copyright 2013 The Go Authors, BSD-style licence); values are symbolic
// (see value.go), control decisions go through Machine.branch, and every
// operation that can panic in Go is checked explicitly so that a target
// panic is never confused with an engine fault.

import (
	"fmt"
	"go/token"
	"go/types"
	"runtime/debug"
	"slices"
	"strings"
	"unsafe"

	"golang.org/x/tools/go/ssa"
)

type targetPanic struct {
	v   value
	pos string
}

func rtErr(msg string) value {
	return iface{t: types.Typ[types.String], v: "runtime error: " + msg}
}

func stackTrace() string { return string(debug.Stack()) }

type deferred struct {
	fn    value
	args  []value
	instr *ssa.Defer
	tail  *deferred
}

type frame struct {
	m                *Machine
	g                *G
	caller           *frame
	fn               *ssa.Function
	block, prevBlock *ssa.BasicBlock
	env              map[ssa.Value]value
	locals           []value
	defers           *deferred
	result           value
	panicking        bool
	panic            interface{}
	phitemps         []value
	curPos           token.Pos
	phisDone         bool
}

func (fr *frame) get(key ssa.Value) value {
	switch key := key.(type) {
	case nil:
		return nil
	case *ssa.Function, *ssa.Builtin:
		return key
	case *ssa.Const:
		return constValue(key)
	case *ssa.Global:
		return fr.m.global(key)
	}
	if r, ok := fr.env[key]; ok {
		return r
	}
	panic(engineError{fmt.Sprintf("get: no value for %T: %v in %s", key, key.Name(), fr.fn)})
}

func (m *Machine) global(g *ssa.Global) *value {
	if r, ok := m.globals[g]; ok {
		return r
	}
	cell := zero(mustDeref(g.Type()))
	m.globals[g] = &cell
	return &cell
}

func (fr *frame) pos() string {
	return posStr(fr.m.p.prog.Fset, fr.curPos)
}

func (fr *frame) tpanic(msg string) {
	if fr.m.spec > 0 {
		panic(specAbort{"panic: " + msg})
	}
	panic(targetPanic{v: rtErr(msg), pos: fr.pos()})
}

func (fr *frame) runDefer(d *deferred) {
	var ok bool
	defer func() {
		if !ok {
			r := recover()
			switch r.(type) {
			case pathKill, pathDead, pathAbort, engineError, specAbort:
				panic(r)
			}
			fr.panicking = true
			fr.panic = r
		}
	}()
	fr.m.call(fr, d.instr.Pos(), d.fn, d.args)
	ok = true
}

func (fr *frame) runDefers() {
	for d := fr.defers; d != nil; d = d.tail {
		fr.runDefer(d)
	}
	fr.defers = nil
	if fr.panicking {
		panic(fr.panic)
	}
}

func (m *Machine) asInt(v value, what string) int64 {
	t := v.(*Term)
	if t.IsConst() {
		return sext64(t.c, t.w)
	}
	c := m.concretize(t, what)
	return sext64(c, t.w)
}

// checkIndex makes sure 0 <= idx < n, forking a panic path when the index
// can be out of range.
func (fr *frame) checkIndex(idx *Term, signed bool, n int) {
	fr.m.res.Implicit++
	st := fr.m.st()
	var ok *Term
	i64 := idx
	if idx.w < 64 {
		if signed {
			i64 = st.SExt(idx, 64)
		} else {
			i64 = st.ZExt(idx, 64)
		}
	}
	// as unsigned compare: negative signed indices become huge
	ok = st.ULt(i64, BV(uint64(n), 64))
	if !fr.m.branch(ok) {
		if idx.IsConst() {
			fr.tpanic(fmt.Sprintf("index out of range [%d] with length %d", sext64(i64.c, 64), n))
		}
		fr.tpanic(fmt.Sprintf("index out of range [symbolic] with length %d", n))
	}
}

func (fr *frame) visitInstr(instr ssa.Instruction) bool /*returned*/ {
	m := fr.m
	m.nInstr++
	if m.nInstr > m.maxInstr {
		panic(pathAbort{fmt.Sprintf("instruction limit %d reached (possible endless loop)", m.maxInstr)})
	}
	if m.nInstr&1023 == 0 && m.h != nil && m.h.stopped.Load() {
		// the exploration of this harness has ended (enough counterexamples,
		// budget): paths still running are abandoned
		panic(pathAbort{"exploration stopped"})
	}
	if p := instr.Pos(); p != token.NoPos {
		fr.curPos = p
	}
	switch instr := instr.(type) {
	case *ssa.DebugRef:

	case *ssa.UnOp:
		fr.env[instr] = fr.unop(instr, fr.get(instr.X))

	case *ssa.BinOp:
		fr.env[instr] = fr.binop(instr.Op, instr.X.Type(), instr.Y.Type(), fr.get(instr.X), fr.get(instr.Y))

	case *ssa.Call:
		fn, args := fr.prepareCall(&instr.Call)
		fr.env[instr] = m.call(fr, instr.Pos(), fn, args)

	case *ssa.ChangeInterface:
		fr.env[instr] = fr.get(instr.X)

	case *ssa.ChangeType:
		fr.env[instr] = fr.get(instr.X)

	case *ssa.Convert:
		fr.env[instr] = fr.conv(instr.Type(), instr.X.Type(), fr.get(instr.X))

	case *ssa.MakeInterface:
		fr.env[instr] = iface{t: instr.X.Type(), v: fr.get(instr.X)}

	case *ssa.Extract:
		fr.env[instr] = fr.get(instr.Tuple).(tuple)[instr.Index]

	case *ssa.Slice:
		fr.env[instr] = fr.slice(instr, fr.get(instr.X), fr.get(instr.Low), fr.get(instr.High), fr.get(instr.Max))

	case *ssa.Return:
		switch len(instr.Results) {
		case 0:
		case 1:
			fr.result = fr.get(instr.Results[0])
		default:
			var res []value
			for _, r := range instr.Results {
				res = append(res, fr.get(r))
			}
			fr.result = tuple(res)
		}
		fr.block = nil
		return true

	case *ssa.RunDefers:
		fr.runDefers()

	case *ssa.Panic:
		m.noSpec("panic")
		panic(targetPanic{v: fr.get(instr.X), pos: fr.pos()})

	case *ssa.Send:
		m.noSpec("send")
		ch, _ := fr.get(instr.Chan).(*chanObj)
		m.sched.send(fr.g, ch, fr.get(instr.X))

	case *ssa.Store:
		if m.spec > 0 {
			if !fr.specStore(instr) {
				m.noSpec("store")
			}
			break
		}
		fr.store(mustDeref(instr.Addr.Type()), fr.get(instr.Addr), fr.get(instr.Val))

	case *ssa.If:
		if cond := fr.get(instr.Cond).(*Term); !cond.IsConst() {
			if _, known := m.pcKnow[cond]; !known && fr.tryMerge(cond) {
				if fr.block == nil {
					return true
				}
				return false
			}
		}
		succ := 1
		if m.branch(fr.get(instr.Cond).(*Term)) {
			succ = 0
		}
		fr.prevBlock, fr.block = fr.block, fr.block.Succs[succ]

	case *ssa.Jump:
		fr.prevBlock, fr.block = fr.block, fr.block.Succs[0]

	case *ssa.Defer:
		m.noSpec("defer")
		fn, args := fr.prepareCall(&instr.Call)
		fr.defers = &deferred{fn: fn, args: args, instr: instr, tail: fr.defers}

	case *ssa.Go:
		m.noSpec("go")
		fn, args := fr.prepareCall(&instr.Call)
		pos := instr.Pos()
		m.sched.spawn(func(g *G) {
			m.callG(g, pos, fn, args)
		}, false)
		m.sched.visible(fr.g)

	case *ssa.MakeChan:
		n := m.asInt(fr.get(instr.Size), "chan size")
		fr.env[instr] = m.sched.newChan(int(n), instr.Type().Underlying().(*types.Chan).Elem())

	case *ssa.Alloc:
		var addr *value
		if instr.Heap {
			addr = new(value)
			fr.env[instr] = addr
		} else {
			addr = fr.env[instr].(*value)
		}
		*addr = zero(mustDeref(instr.Type()))

	case *ssa.MakeSlice:
		n := m.asInt(fr.get(instr.Len), "make len")
		var c int64
		symCap := false
		if ct, ok := fr.get(instr.Cap).(*Term); ok && !ct.IsConst() {
			// A symbolic capacity (make([]T, n, lengthFromTheInput)) is not
			// enumerated value by value: apart from the range check it is
			// observable only through cap() and through which appends
			// reallocate.  The slice gets capacity n; a later cap() of it (or of
			// what is appended to it) is left undecided, and appends always reallocate (code
			// that depends on two slices sharing spare capacity is outside
			// the model).
			st := m.st()
			bad := st.Or(st.SLt(ct, BV(uint64(n), 64)), st.SLt(BV(1<<24, 64), ct))
			if m.branch(bad) {
				fr.tpanic("makeslice: cap out of range")
			}
			symCap = true
			c = n
		} else {
			c = m.asInt(fr.get(instr.Cap), "make cap")
		}
		if n < 0 || c < n || c > 1<<24 {
			fr.tpanic("makeslice: len out of range")
		}
		sl := make([]value, c)
		tElt := instr.Type().Underlying().(*types.Slice).Elem()
		for i := range sl {
			sl[i] = zero(tElt)
		}
		if symCap {
			// one hidden element gives the slice an identity even when empty
			sl = make([]value, n+1)
			for i := range sl {
				sl[i] = zero(tElt)
			}
			sl = sl[:n:n]
			if m.capUnknown == nil {
				m.capUnknown = map[*value]bool{}
			}
			m.capUnknown[unsafe.SliceData(sl)] = true
		}
		fr.env[instr] = sl[:n]

	case *ssa.MakeMap:
		fr.env[instr] = &mapObj{keyType: instr.Type().Underlying().(*types.Map).Key()}

	case *ssa.Range:
		fr.env[instr] = fr.rangeIter(fr.get(instr.X), instr.X.Type())

	case *ssa.Next:
		fr.env[instr] = fr.get(instr.Iter).(iter).next()

	case *ssa.FieldAddr:
		p := fr.get(instr.X).(*value)
		if p == nil {
			fr.tpanic("invalid memory address or nil pointer dereference")
		}
		fr.env[instr] = &(*p).(structure)[instr.Field]

	case *ssa.Field:
		fr.env[instr] = fr.get(instr.X).(structure)[instr.Field]

	case *ssa.IndexAddr:
		x := fr.get(instr.X)
		idx := fr.get(instr.Index).(*Term)
		_, signed, _ := intInfo(instr.Index.Type())
		var elems []value
		switch x := x.(type) {
		case []value:
			elems = x
		case *value:
			if x == nil {
				fr.tpanic("invalid memory address or nil pointer dereference")
			}
			elems = (*x).(array)
		default:
			panic(engineError{fmt.Sprintf("unexpected x type in IndexAddr: %T", x)})
		}
		fr.checkIndex(idx, signed, len(elems))
		if idx.IsConst() {
			fr.env[instr] = &elems[idx.c]
		} else if allScalar(elems) && len(elems) <= 4096 {
			i64 := idx
			if idx.w < 64 {
				i64 = m.st().ZExt(idx, 64)
			}
			fr.env[instr] = &symRef{elems: elems, idx: i64}
		} else {
			c := m.concretize(idx, "index")
			fr.env[instr] = &elems[c]
		}

	case *ssa.Index:
		x := fr.get(instr.X)
		idx := fr.get(instr.Index).(*Term)
		_, signed, _ := intInfo(instr.Index.Type())
		switch x := x.(type) {
		case array:
			fr.checkIndex(idx, signed, len(x))
			fr.env[instr] = x[m.concretize(idx, "index")]
		case string:
			fr.checkIndex(idx, signed, len(x))
			fr.env[instr] = BV(uint64(x[m.concretize(idx, "index")]), 8)
		case *SymStr:
			n, ok := x.length()
			if !ok {
				panic(pathAbort{"index into a string of unknown length"})
			}
			fr.checkIndex(idx, signed, n)
			fr.env[instr] = x.byteAt(int(m.concretize(idx, "index")))
		default:
			panic(engineError{fmt.Sprintf("unexpected x type in Index: %T", x)})
		}

	case *ssa.Lookup:
		fr.env[instr] = fr.lookup(instr, fr.get(instr.X), fr.get(instr.Index))

	case *ssa.MapUpdate:
		m.noSpec("map update")
		mo, _ := fr.get(instr.Map).(*mapObj)
		if mo == nil {
			fr.tpanic("assignment to entry in nil map")
		}
		fr.mapInsert(mo, fr.get(instr.Key), copyVal(fr.get(instr.Value)))

	case *ssa.TypeAssert:
		fr.env[instr] = fr.typeAssert(instr, fr.get(instr.X).(iface))

	case *ssa.MakeClosure:
		var bindings []value
		for _, b := range instr.Bindings {
			bindings = append(bindings, fr.get(b))
		}
		fr.env[instr] = &closure{instr.Fn.(*ssa.Function), bindings}

	case *ssa.Phi:
		panic(engineError{"phi outside block entry"})

	case *ssa.Select:
		m.noSpec("select")
		var cases []selCase
		for _, st := range instr.States {
			ch, _ := fr.get(st.Chan).(*chanObj)
			c := selCase{send: st.Dir == types.SendOnly, ch: ch}
			if c.send {
				c.val = fr.get(st.Send)
			} else {
				c.elem = st.Chan.Type().Underlying().(*types.Chan).Elem()
			}
			cases = append(cases, c)
		}
		idx, rv, rok := m.sched.selectStmt(fr.g, cases, instr.Blocking)
		res := tuple{BV(uint64(int64(idx)), 64), Bool(rok)}
		for i, st := range instr.States {
			if st.Dir == types.RecvOnly {
				if i == idx {
					res = append(res, rv)
				} else {
					res = append(res, zero(st.Chan.Type().Underlying().(*types.Chan).Elem()))
				}
			}
		}
		fr.env[instr] = res

	default:
		panic(pathAbort{fmt.Sprintf("unsupported instruction %T", instr)})
	}
	return false
}

func allScalar(vs []value) bool {
	for _, v := range vs {
		if _, ok := v.(*Term); !ok {
			return false
		}
	}
	return true
}

// store through a possibly symbolic pointer.
func (fr *frame) store(T types.Type, addr value, v value) {
	fr.m.res.Implicit++
	switch a := addr.(type) {
	case *value:
		if a == nil {
			fr.tpanic("invalid memory address or nil pointer dereference")
		}
		fr.guardCheck(a, true)
		store(T, a, v)
	case *symRef:
		st := fr.m.st()
		nv := v.(*Term)
		for i := range a.elems {
			old := a.elems[i].(*Term)
			a.elems[i] = st.Ite(st.Eq(a.idx, BV(uint64(i), 64)), nv, old)
		}
	default:
		panic(engineError{fmt.Sprintf("store through %T", addr)})
	}
}

func (fr *frame) loadPtr(T types.Type, addr value) value {
	fr.m.res.Implicit++
	switch a := addr.(type) {
	case *value:
		if a == nil {
			fr.tpanic("invalid memory address or nil pointer dereference")
		}
		fr.guardCheck(a, false)
		return load(T, a)
	case *symRef:
		return fr.m.selectByIndex(a.elems, a.idx)
	}
	panic(engineError{fmt.Sprintf("load through %T", addr)})
}

// selectByIndex: the element of a concrete-length vector at a symbolic index
// (the index is known to be in range).  Runs of equal elements are merged and
// the choice is a balanced tree of comparisons over the runs, so a lookup
// table of 4096 entries that is mostly zeros costs a few dozen nodes of depth
// five or six instead of a chain of 4096.
func (m *Machine) selectByIndex(elems []value, idx *Term) *Term {
	st := m.st()
	type run struct {
		from int // first index of the run
		v    *Term
	}
	var runs []run
	for i, e := range elems {
		t := e.(*Term)
		if len(runs) == 0 || runs[len(runs)-1].v != t {
			runs = append(runs, run{i, t})
		}
	}
	if len(runs) <= 8 {
		// short: the plain chain on equalities / range starts
		r := runs[len(runs)-1].v
		for i := len(runs) - 2; i >= 0; i-- {
			r = st.Ite(st.ULt(idx, BV(uint64(runs[i+1].from), 64)), runs[i].v, r)
		}
		return r
	}
	var build func(lo, hi int) *Term // runs[lo:hi]
	build = func(lo, hi int) *Term {
		if hi-lo == 1 {
			return runs[lo].v
		}
		mid := (lo + hi) / 2
		return st.Ite(st.ULt(idx, BV(uint64(runs[mid].from), 64)), build(lo, mid), build(mid, hi))
	}
	return build(0, len(runs))
}

func (fr *frame) prepareCall(call *ssa.CallCommon) (fn value, args []value) {
	v := fr.get(call.Value)
	if call.Method == nil {
		fn = v
	} else {
		recv := v.(iface)
		if recv.t == nil {
			fr.tpanic("invalid memory address or nil pointer dereference (method call on nil interface)")
		}
		f := fr.m.p.prog.LookupMethod(recv.t, call.Method.Pkg(), call.Method.Name())
		if f == nil {
			panic(engineError{fmt.Sprintf("method set for dynamic type %v does not contain %s", recv.t, call.Method)})
		}
		fn = f
		args = append(args, recv.v)
	}
	for _, arg := range call.Args {
		args = append(args, fr.get(arg))
	}
	return
}

func (m *Machine) call(caller *frame, callpos token.Pos, fn value, args []value) value {
	switch fn := fn.(type) {
	case *ssa.Function:
		if fn == nil {
			caller.tpanic("call of nil function")
		}
		return m.callSSA(caller, caller.g, callpos, fn, args, nil)
	case *closure:
		if fn == nil {
			caller.tpanic("call of nil function")
		}
		return m.callSSA(caller, caller.g, callpos, fn.Fn, args, fn.Env)
	case *ssa.Builtin:
		return caller.callBuiltin(callpos, fn, args)
	}
	panic(engineError{fmt.Sprintf("cannot call %T", fn)})
}

// callG is the entry of a new goroutine.
func (m *Machine) callG(g *G, callpos token.Pos, fn value, args []value) value {
	switch fn := fn.(type) {
	case *ssa.Function:
		return m.callSSA(nil, g, callpos, fn, args, nil)
	case *closure:
		return m.callSSA(nil, g, callpos, fn.Fn, args, fn.Env)
	case *ssa.Builtin:
		fr := &frame{m: m, g: g}
		return fr.callBuiltin(callpos, fn, args)
	}
	panic(engineError{fmt.Sprintf("cannot go %T", fn)})
}

func (m *Machine) callSSA(caller *frame, g *G, callpos token.Pos, fn *ssa.Function, args []value, env []value) value {
	fr := &frame{m: m, g: g, caller: caller, fn: fn, curPos: callpos}
	if fn.Parent() == nil {
		if ic := m.p.intercept(fn); ic != nil && !(m.rawCRC && fn.Pkg != nil && fn.Pkg.Pkg.Path() == crcPkgPath) {
			if m.spec > 0 && !pureIntercept(fn) {
				panic(specAbort{"call of " + fn.String()})
			}
			return ic(fr, args)
		}
		if !m.p.interpreted(fn) {
			panic(pathAbort{"call of uninterpreted function " + fn.String()})
		}
		if fn.Blocks == nil {
			panic(pathAbort{"no code for function " + fn.String()})
		}
	}
	if fn.TypeParams().Len() > 0 && len(fn.TypeArgs()) == 0 {
		panic(pathAbort{"uninstantiated generic " + fn.String()})
	}
	if fn.Pkg != nil {
		m.funcs[fn] = true
	}
	depth := 0
	for c := caller; c != nil; c = c.caller {
		depth++
	}
	if depth > 400 {
		panic(pathAbort{"call depth limit"})
	}
	fr.env = make(map[ssa.Value]value, 16)
	fr.block = fn.Blocks[0]
	fr.locals = make([]value, len(fn.Locals))
	for i, l := range fn.Locals {
		fr.locals[i] = zero(mustDeref(l.Type()))
		fr.env[l] = &fr.locals[i]
	}
	for i, p := range fn.Params {
		fr.env[p] = args[i]
	}
	for i, fv := range fn.FreeVars {
		fr.env[fv] = env[i]
	}
	for fr.block != nil {
		fr.runFrame()
	}
	return fr.result
}

func (fr *frame) runFrame() {
	defer func() {
		if fr.block == nil {
			return // normal return
		}
		r := recover()
		switch r.(type) {
		case pathKill, pathDead, pathAbort, engineError, specAbort:
			panic(r)
		case targetPanic:
		default:
			// a Go runtime error inside the engine: an engine fault
			panic(engineError{fmt.Sprintf("%v in %s at %s\n%s", r, fr.fn, fr.pos(), stackTrace())})
		}
		fr.panicking = true
		fr.panic = r
		fr.runDefers()
		fr.block = fr.fn.Recover
		if fr.block == nil {
			// recovered in a function without named results: zero results
			fr.result = zeroResults(fr.fn)
		}
	}()
	for {
		nonPhis := fr.executePhis()
		for _, instr := range nonPhis {
			if fr.visitInstr(instr) {
				return
			}
		}
	}
}

func zeroResults(fn *ssa.Function) value {
	res := fn.Signature.Results()
	switch res.Len() {
	case 0:
		return nil
	case 1:
		return zero(res.At(0).Type())
	}
	return zero(res)
}

func (fr *frame) executePhis() []ssa.Instruction {
	if fr.phisDone {
		fr.phisDone = false
		for i, instr := range fr.block.Instrs {
			if _, ok := instr.(*ssa.Phi); !ok {
				return fr.block.Instrs[i:]
			}
		}
	}
	firstNonPhi := -1
	for i, instr := range fr.block.Instrs {
		if _, ok := instr.(*ssa.Phi); !ok {
			firstNonPhi = i
			break
		}
	}
	nonPhis := fr.block.Instrs[firstNonPhi:]
	if firstNonPhi > 0 {
		phis := fr.block.Instrs[:firstNonPhi]
		predIndex := slices.Index(fr.block.Preds, fr.prevBlock)
		fr.phitemps = fr.phitemps[:0]
		for _, phi := range phis {
			fr.phitemps = append(fr.phitemps, fr.get(phi.(*ssa.Phi).Edges[predIndex]))
		}
		for i, phi := range phis {
			fr.env[phi.(*ssa.Phi)] = fr.phitemps[i]
		}
	}
	return nonPhis
}

func (fr *frame) doRecover() value {
	caller := fr.caller // the deferred function's frame is fr; its caller is the panicking frame
	_ = caller
	// recover() is called in a deferred function fr.caller == deferred fn frame?  The
	// builtin is invoked with fr = frame of the deferred function.
	df := fr
	if df != nil && !df.panicking && df.caller != nil && df.caller.panicking {
		df.caller.panicking = false
		p := df.caller.panic
		df.caller.panic = nil
		if tp, ok := p.(targetPanic); ok {
			return tp.v
		}
		panic(engineError{fmt.Sprintf("recover of non-target panic %T", p)})
	}
	return iface{}
}

func (m *Machine) panicText(v value) string {
	if i, ok := v.(iface); ok {
		if s, ok := i.v.(string); ok {
			return s
		}
		if s, ok := i.v.(*SymStr); ok {
			return s.String()
		}
		if i.t != nil {
			// error values: try Error()
			if f := m.p.findMethod(i.t, "Error"); f != nil {
				return "panic(error of type " + i.t.String() + ")"
			}
		}
	}
	return "panic: " + m.show(v)
}

// ---------------------------------------------------------------- main

func (m *Machine) runMain() {
	s := &Sched{m: m, done: make(chan struct{}), mutexes: map[*value]*mutexState{}}
	m.sched = s
	mainG := s.spawn(func(g *G) {
		if m.entry != nil {
			m.entry(g)
			return
		}
		m.p.initGlobals(m, g)
		m.callSSA(nil, g, token.NoPos, m.h.Fn, nil, nil)
	}, true)
	s.wake(mainG)
	<-s.done
	s.killing = true
	for _, g := range s.gs {
		close(g.resume)
	}
	s.wg.Wait()
	if s.engineErr != "" {
		panic(engineError{s.engineErr})
	}
}

// pureIntercept: environment models without side effects, callable while an
// arm is executed speculatively.
func pureIntercept(fn *ssa.Function) bool {
	switch fn.String() {
	case "fmt.Sprintf", "fmt.Sprint", "fmt.Sprintln", "fmt.Errorf",
		"github.com/goblimey/go-crc24q/crc24q.Hash", "encoding/hex.Dump",
		"strings.Contains", "strings.HasPrefix",
		"(time.Time).In", "(time.Time).UTC", "(time.Time).Zone", "(time.Time).Location", "(time.Time).Add", "(time.Time).Sub", "(time.Time).AddDate",
		"(time.Time).Weekday", "(time.Time).Format", "(time.Time).Equal", "(time.Time).Before",
		"(time.Time).After", "(time.Time).IsZero", "(time.Duration).Milliseconds":
		return true
	}
	switch fn.Name() {
	case "verifB2U", "verifAnd", "verifOr", "verifImplies", "verifIteU64", "verifIteInt", "verifStrEq", "verifBytesEq",
		"verifTier", "verifTimeOf", "verifTimeNs":
		return fn.Pkg != nil && strings.HasPrefix(fn.Pkg.Pkg.Path(), repoModule)
	}
	return false
}

func (m *Machine) noSpec(what string) {
	if m.spec > 0 {
		panic(specAbort{what})
	}
}

// ---------------------------------------------------------------- merging

// A store executed inside a speculative arm: only stores of booleans (a flag
// over a flag) through a concrete pointer, with no access
// monitor active.  The store is carried out and logged; at the end of the
// arm every logged cell is rolled back and its final value handed to
// tryMerge, which writes ite(cond, then-value, else-value) when the merge
// succeeds ("if c { a[i] = true }" becomes a[i] = ite(c, true, a[i])).
type specStoreRec struct {
	addr *value
	old  value
}

func (fr *frame) specStore(instr *ssa.Store) bool {
	m := fr.m
	if m.specLog == nil || m.guardOn || m.isoOn {
		return false
	}
	addr, _ := fr.get(instr.Addr).(*value)
	nv, _ := fr.get(instr.Val).(*Term)
	if addr == nil || nv == nil {
		return false
	}
	old, _ := (*addr).(*Term)
	if old == nil || old.kind != nv.kind || old.w != nv.w || nv.kind != KBool {
		// flags only: a merged integer field that later feeds floating-point
		// arithmetic turns cheap concrete paths into hard solver queries
		// (seed C15c was missed that way); integers fork as before
		return false
	}
	m.logSpecStore(addr)
	*addr = nv
	return true
}

func (m *Machine) logSpecStore(addr *value) {
	for _, r := range *m.specLog {
		if r.addr == addr {
			return
		}
	}
	*m.specLog = append(*m.specLog, specStoreRec{addr, *addr})
}

// specArm executes the straight-line block b speculatively (no forks, no
// panics, no visible operations, scalar stores only -- see specStore; calls
// are allowed and run under the same restrictions).  It returns how the arm
// ends: with a Jump (the successor block) or a Return (its result), and the
// final values of the cells it stored to (the cells themselves are rolled
// back).  ok=false: the arm cannot be merged.
func (fr *frame) specArm(b *ssa.BasicBlock) (next *ssa.BasicBlock, ret value, isRet bool, ok bool) {
	next, ret, isRet, _, ok = fr.specArmStores(b)
	return
}

func (fr *frame) specArmStores(b *ssa.BasicBlock) (next *ssa.BasicBlock, ret value, isRet bool, stores map[*value]value, ok bool) {
	m := fr.m
	if len(b.Preds) != 1 {
		return nil, nil, false, nil, false
	}
	saveInstr := m.nInstr
	saveLog := m.specLog
	var log []specStoreRec
	m.specLog = &log
	m.spec++
	defer func() {
		m.spec--
		m.specLog = saveLog
		// roll the cells back; remember what the arm left in them
		if len(log) > 0 {
			stores = map[*value]value{}
			for i := len(log) - 1; i >= 0; i-- {
				stores[log[i].addr] = *log[i].addr
				*log[i].addr = log[i].old
			}
		}
		if r := recover(); r != nil {
			if _, isSpec := r.(specAbort); isSpec {
				m.nInstr = saveInstr
				ok = false
				return
			}
			panic(r)
		}
	}()
	for _, instr := range b.Instrs {
		switch instr := instr.(type) {
		case *ssa.Phi:
			fr.env[instr] = fr.get(instr.Edges[0])
		case *ssa.Jump:
			return b.Succs[0], nil, false, nil, true
		case *ssa.Return:
			switch len(instr.Results) {
			case 0:
				return nil, nil, true, nil, true
			case 1:
				return nil, fr.get(instr.Results[0]), true, nil, true
			default:
				var res tuple
				for _, r := range instr.Results {
					res = append(res, fr.get(r))
				}
				return nil, res, true, nil, true
			}
		case *ssa.If, *ssa.RunDefers:
			return nil, nil, false, nil, false
		default:
			save := fr.block
			if fr.visitInstr(instr) {
				return nil, nil, false, nil, false
			}
			fr.block = save
		}
	}
	return nil, nil, false, nil, false
}

// mergeVal joins two values under a condition, when possible.
func (m *Machine) mergeVal(c *Term, a, b value) (value, bool) {
	switch x := a.(type) {
	case *Term:
		y, ok := b.(*Term)
		if !ok || x.kind != y.kind || x.w != y.w {
			return nil, false
		}
		if x.kind == KFP && x != y {
			return nil, false // floating-point values are never merged: forking keeps them concrete or syntactic
		}
		return m.st().Ite(c, x, y), true
	case tuple:
		y, ok := b.(tuple)
		if !ok || len(x) != len(y) {
			return nil, false
		}
		r := make(tuple, len(x))
		for i := range x {
			v, ok := m.mergeVal(c, x[i], y[i])
			if !ok {
				return nil, false
			}
			r[i] = v
		}
		return r, true
	case nil:
		return nil, b == nil
	case string:
		if y, ok := b.(string); ok && x == y {
			return x, true
		}
	case *value:
		if y, ok := b.(*value); ok && x == y {
			return x, true
		}
	case timeVal:
		if y, ok := b.(timeVal); ok {
			return timeVal{ns: m.st().Ite(c, x.ns, y.ns)}, true
		}
	case iface:
		if y, ok := b.(iface); ok && x.t == nil && y.t == nil {
			return x, true
		}
	}
	return nil, false
}

// tryMerge handles "if cond" without forking when both arms are pure
// straight-line code that rejoin at once (diamond or triangle) or both
// return.  On success fr.block is the join block with its phis evaluated
// (or nil after a merged return).
func (fr *frame) tryMerge(cond *Term) bool {
	m := fr.m
	if m.noMerge || fr.defers != nil {
		return false
	}
	cur := fr.block
	T, F := cur.Succs[0], cur.Succs[1]
	if T == F {
		return false
	}
	type arm struct {
		from   *ssa.BasicBlock // predecessor of the join on this side
		next   *ssa.BasicBlock
		ret    value
		isRet  bool
		stores map[*value]value
	}
	run := func(b, other *ssa.BasicBlock) (arm, bool) {
		// triangle: this side goes straight to the other successor
		if len(b.Preds) != 1 {
			return arm{from: cur, next: b}, b == other || true
		}
		next, ret, isRet, stores, ok := fr.specArmStores(b)
		if !ok {
			return arm{}, false
		}
		return arm{from: b, next: next, ret: ret, isRet: isRet, stores: stores}, true
	}
	var at, af arm
	var ok bool
	switch {
	case len(T.Preds) == 1 && len(F.Preds) == 1:
		if at, ok = run(T, F); !ok {
			return false
		}
		if af, ok = run(F, T); !ok {
			return false
		}
	case len(T.Preds) == 1: // F is the join
		if at, ok = run(T, F); !ok {
			return false
		}
		af = arm{from: cur, next: F}
	case len(F.Preds) == 1: // T is the join
		if af, ok = run(F, T); !ok {
			return false
		}
		at = arm{from: cur, next: T}
	default:
		return false
	}
	if at.isRet != af.isRet {
		return false
	}
	// the cells the arms stored to: ite(cond, then-value, else-value), the
	// value of an arm that did not touch a cell being its current one
	type cellMerge struct {
		addr *value
		v    value
	}
	var cells []cellMerge
	if len(at.stores)+len(af.stores) > 0 {
		seen := map[*value]bool{}
		for _, mp := range []map[*value]value{at.stores, af.stores} {
			for addr := range mp {
				if seen[addr] {
					continue
				}
				seen[addr] = true
				vt, vf := *addr, *addr
				if v, ok := at.stores[addr]; ok {
					vt = v
				}
				if v, ok := af.stores[addr]; ok {
					vf = v
				}
				v, ok := m.mergeVal(cond, vt, vf)
				if !ok {
					return false
				}
				cells = append(cells, cellMerge{addr, v})
			}
		}
	}
	commit := func() {
		for _, c := range cells {
			if m.spec > 0 && m.specLog != nil {
				m.logSpecStore(c.addr) // nested inside an outer speculative arm
			}
			*c.addr = c.v
		}
	}
	if len(cells) > 0 && m.spec > 0 && m.specLog == nil {
		return false
	}
	if at.isRet {
		v, ok := m.mergeVal(cond, at.ret, af.ret)
		if !ok {
			return false
		}
		commit()
		fr.result = v
		fr.block = nil
		m.merges++
		return true
	}
	if at.next != af.next || at.next == nil {
		return false
	}
	J := at.next
	it, jf := -1, -1
	for i, p := range J.Preds {
		if p == at.from {
			it = i
		}
		if p == af.from {
			jf = i
		}
	}
	if it < 0 || jf < 0 || it == jf {
		return false
	}
	// evaluate J's phis as ite(cond, then-edge, else-edge)
	var phis []*ssa.Phi
	var vals []value
	for _, instr := range J.Instrs {
		phi, isPhi := instr.(*ssa.Phi)
		if !isPhi {
			break
		}
		v, ok := m.mergeVal(cond, fr.get(phi.Edges[it]), fr.get(phi.Edges[jf]))
		if !ok {
			return false
		}
		phis = append(phis, phi)
		vals = append(vals, v)
	}
	for i, phi := range phis {
		fr.env[phi] = vals[i]
	}
	commit()
	fr.prevBlock, fr.block = at.from, J
	fr.phisDone = true
	m.merges++
	return true
}
