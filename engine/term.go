package main

// Terms: the symbolic scalar values of the interpreter.  Every Go bool,
// integer and float64 value is a *Term; a constant is a Term with op OpConst.
// Constructors constant-fold, so concrete execution and symbolic execution
// share one code path.

import (
	"fmt"
	"math"
	"math/rand"
	"strings"
)

type Kind uint8

const (
	KBool Kind = iota
	KBV
	KFP // float64 only
)

type Op uint8

const (
	OpConst Op = iota
	OpVar
	// bit-vector
	OpAdd
	OpSub
	OpMul
	OpUDiv
	OpURem
	OpSDiv
	OpSRem
	OpAnd
	OpOr
	OpXor
	OpBVNot
	OpNeg
	OpShl
	OpLShr
	OpAShr
	OpExtract // p1=hi p2=lo
	OpZExt    // p1 = extra bits
	OpSExt
	OpConcat
	OpIte
	// predicates
	OpEq
	OpULt
	OpULe
	OpSLt
	OpSLe
	// bool
	OpNot
	OpBAnd
	OpBOr
	// float64
	OpFAdd
	OpFSub
	OpFMul
	OpFDiv
	OpFNeg
	OpFLt
	OpFLe
	OpFEq
	OpFFromS // signed bv -> fp
	OpFFromU
	OpFToS // fp -> signed bv (RTZ), p1 = width
	OpFToU
	OpFIsNaN
	OpFAbs
	OpFRound // to an integral value, p1 = mode: 0 floor, 1 ceil, 2 trunc, 3 round half away
)

var opNames = map[Op]string{
	OpAdd: "bvadd", OpSub: "bvsub", OpMul: "bvmul", OpUDiv: "bvudiv", OpURem: "bvurem",
	OpSDiv: "bvsdiv", OpSRem: "bvsrem", OpAnd: "bvand", OpOr: "bvor", OpXor: "bvxor",
	OpBVNot: "bvnot", OpNeg: "bvneg", OpShl: "bvshl", OpLShr: "bvlshr", OpAShr: "bvashr",
	OpConcat: "concat", OpIte: "ite", OpEq: "=", OpULt: "bvult", OpULe: "bvule",
	OpSLt: "bvslt", OpSLe: "bvsle", OpNot: "not", OpBAnd: "and", OpBOr: "or",
	OpFAdd: "fp.add RNE", OpFSub: "fp.sub RNE", OpFMul: "fp.mul RNE", OpFDiv: "fp.div RNE",
	OpFAbs: "fp.abs",
	OpFNeg: "fp.neg", OpFLt: "fp.lt", OpFLe: "fp.leq", OpFEq: "fp.eq", OpFIsNaN: "fp.isNaN",
}

type Term struct {
	id   int // 0 for constants
	op   Op
	kind Kind
	w    int // width for KBV
	a    []*Term
	c    uint64 // constant payload (bool 0/1, bv masked, fp bits)
	p1   int
	p2   int
	name string
	fp   bool // some floating-point operation below this term
	// known-bits analysis (bit-vectors of width <= 64): bits set in k0 are
	// known to be 0, bits set in k1 are known to be 1
	kdone  bool
	k0, k1 uint64
	// bit-slice normalisation (bits.go)
	bits []bitSrc
	norm *Term
}

func (t *Term) IsConst() bool { return t.op == OpConst }

func mask(w int) uint64 {
	if w >= 64 {
		return ^uint64(0)
	}
	return (uint64(1) << uint(w)) - 1
}

func sext64(v uint64, w int) int64 {
	if w >= 64 {
		return int64(v)
	}
	sh := uint(64 - w)
	return int64(v<<sh) >> sh
}

// Store hash-conses non-constant terms.  One Store per worker.
type Store struct {
	tab  map[string]*Term
	next int
	vars map[string]*Term
	// order of variable creation, for models
	varList []*Term
	rng     *rand.Rand
}

func NewStore() *Store {
	return &Store{tab: map[string]*Term{}, vars: map[string]*Term{}, next: 1}
}

var (
	tTrue  = &Term{op: OpConst, kind: KBool, c: 1}
	tFalse = &Term{op: OpConst, kind: KBool, c: 0}
)

func Bool(b bool) *Term {
	if b {
		return tTrue
	}
	return tFalse
}

// Small constants are shared (constants are immutable: nothing is cached on
// them), which removes most allocations of concrete execution -- a zeroed
// 4096-byte buffer is 4096 pointers to one term.
var smallConsts = func() map[int][]*Term {
	m := map[int][]*Term{}
	for _, w := range []int{1, 8, 16, 32, 64} {
		n := 256
		if w == 1 {
			n = 2
		}
		ts := make([]*Term, n)
		for v := range ts {
			ts[v] = &Term{op: OpConst, kind: KBV, w: w, c: uint64(v)}
		}
		m[w] = ts
	}
	return m
}()

var smallConst8, smallConst64 = smallConsts[8], smallConsts[64]

func BV(v uint64, w int) *Term {
	v &= mask(w)
	if v < 256 {
		switch w {
		case 8:
			return smallConst8[v]
		case 64:
			return smallConst64[v]
		case 1, 16, 32:
			if ts := smallConsts[w]; v < uint64(len(ts)) {
				return ts[v]
			}
		}
	}
	return &Term{op: OpConst, kind: KBV, w: w, c: v}
}

func FP(f float64) *Term {
	return &Term{op: OpConst, kind: KFP, c: math.Float64bits(f)}
}

func (t *Term) Float() float64 { return math.Float64frombits(t.c) }
func (t *Term) IsTrue() bool   { return t.op == OpConst && t.kind == KBool && t.c == 1 }
func (t *Term) IsFalse() bool  { return t.op == OpConst && t.kind == KBool && t.c == 0 }

func (t *Term) key() string {
	if t.op == OpConst {
		return fmt.Sprintf("c%d.%d.%x", t.kind, t.w, t.c)
	}
	return fmt.Sprintf("t%d", t.id)
}

func (s *Store) mk(op Op, kind Kind, w int, p1, p2 int, args ...*Term) *Term {
	var sb strings.Builder
	fmt.Fprintf(&sb, "%d|%d|%d|%d|%d", op, kind, w, p1, p2)
	for _, a := range args {
		sb.WriteByte('|')
		sb.WriteString(a.key())
	}
	k := sb.String()
	if t, ok := s.tab[k]; ok {
		return t
	}
	t := &Term{id: s.next, op: op, kind: kind, w: w, a: args, p1: p1, p2: p2}
	t.fp = kind == KFP
	for _, a := range args {
		if a.fp || a.kind == KFP {
			t.fp = true
		}
	}
	s.next++
	s.tab[k] = t
	if kind == KBV && w <= 64 {
		if c := fromKnown(t); c != nil {
			s.tab[k] = c
			return c
		}
	}
	return t
}

func (s *Store) Var(name string, kind Kind, w int) *Term {
	if t, ok := s.vars[name]; ok {
		if t.kind != kind || t.w != w {
			panic(engineError{fmt.Sprintf("variable %s redeclared with a different sort", name)})
		}
		return t
	}
	t := &Term{id: s.next, op: OpVar, kind: kind, w: w, name: name}
	s.next++
	s.vars[name] = t
	s.varList = append(s.varList, t)
	return t
}

// known returns the bits of t that are fixed whatever the variables are.
func (t *Term) known() (k0, k1 uint64) {
	if t.kind != KBV || t.w > 64 {
		return 0, 0
	}
	if t.op == OpConst {
		return ^t.c & mask(t.w), t.c
	}
	if t.kdone {
		return t.k0, t.k1
	}
	m := mask(t.w)
	switch t.op {
	case OpAnd:
		a0, a1 := t.a[0].known()
		b0, b1 := t.a[1].known()
		k0, k1 = a0|b0, a1&b1
	case OpOr:
		a0, a1 := t.a[0].known()
		b0, b1 := t.a[1].known()
		k0, k1 = a0&b0, a1|b1
	case OpXor:
		a0, a1 := t.a[0].known()
		b0, b1 := t.a[1].known()
		k0 = (a0 & b0) | (a1 & b1)
		k1 = (a0 & b1) | (a1 & b0)
	case OpBVNot:
		a0, a1 := t.a[0].known()
		k0, k1 = a1, a0
	case OpShl:
		if c := t.a[1]; c.IsConst() && c.c < 64 {
			a0, a1 := t.a[0].known()
			k0 = (a0<<c.c | (uint64(1)<<c.c - 1)) & m
			k1 = (a1 << c.c) & m
		}
	case OpLShr:
		if c := t.a[1]; c.IsConst() && c.c < 64 {
			a0, a1 := t.a[0].known()
			k0 = (a0>>c.c | ^(m >> c.c)) & m
			k1 = a1 >> c.c
		}
	case OpZExt:
		a0, a1 := t.a[0].known()
		k0 = a0 | (m &^ mask(t.a[0].w))
		k1 = a1
	case OpExtract:
		if t.a[0].w <= 64 {
			a0, a1 := t.a[0].known()
			k0 = (a0 >> uint(t.p2)) & m
			k1 = (a1 >> uint(t.p2)) & m
		}
	case OpIte:
		a0, a1 := t.a[1].known()
		b0, b1 := t.a[2].known()
		k0, k1 = a0&b0, a1&b1
	case OpConcat:
		if t.w <= 64 {
			a0, a1 := t.a[0].known()
			b0, b1 := t.a[1].known()
			sh := uint(t.a[1].w)
			k0, k1 = a0<<sh|b0, a1<<sh|b1
		}
	}
	t.kdone, t.k0, t.k1 = true, k0&m, k1&m
	return t.k0, t.k1
}

// fromKnown returns the constant t must equal when all its bits are known.
func fromKnown(t *Term) *Term {
	if t.kind != KBV || t.w > 64 || t.op == OpConst {
		return nil
	}
	k0, k1 := t.known()
	if k0|k1 == mask(t.w) {
		return BV(k1, t.w)
	}
	return nil
}

// ---------------------------------------------------------------- bool

func (s *Store) Not(x *Term) *Term {
	if x.IsConst() {
		return Bool(x.c == 0)
	}
	if x.op == OpNot {
		return x.a[0]
	}
	return s.mk(OpNot, KBool, 0, 0, 0, x)
}

func (s *Store) And(x, y *Term) *Term {
	if x.IsConst() {
		if x.c == 0 {
			return tFalse
		}
		return y
	}
	if y.IsConst() {
		if y.c == 0 {
			return tFalse
		}
		return x
	}
	if x == y {
		return x
	}
	return s.mk(OpBAnd, KBool, 0, 0, 0, x, y)
}

func (s *Store) Or(x, y *Term) *Term {
	if x.IsConst() {
		if x.c == 1 {
			return tTrue
		}
		return y
	}
	if y.IsConst() {
		if y.c == 1 {
			return tTrue
		}
		return x
	}
	if x == y {
		return x
	}
	return s.mk(OpBOr, KBool, 0, 0, 0, x, y)
}

func (s *Store) Ite(c, x, y *Term) *Term {
	if c.IsConst() {
		if c.c == 1 {
			return x
		}
		return y
	}
	if x == y {
		return x
	}
	if x.IsConst() && y.IsConst() && x.kind == y.kind && x.w == y.w && x.c == y.c {
		return x
	}
	if x.kind == KBool {
		// keep bools in the boolean fragment
		return s.Or(s.And(c, x), s.And(s.Not(c), y))
	}
	return s.mk(OpIte, x.kind, x.w, 0, 0, c, x, y)
}

func (s *Store) Eq(x, y *Term) *Term {
	if x.kind != y.kind || (x.kind == KBV && x.w != y.w) {
		panic(engineError{fmt.Sprintf("Eq: sort mismatch %d/%d vs %d/%d", x.kind, x.w, y.kind, y.w)})
	}
	if x.kind == KFP {
		return s.fcmp(OpFEq, x, y)
	}
	if x.IsConst() && y.IsConst() {
		return Bool(x.c == y.c)
	}
	if x == y {
		return tTrue
	}
	if x.kind == KBool {
		if x.IsConst() {
			x, y = y, x
		}
		if y.IsConst() {
			if y.c == 1 {
				return x
			}
			return s.Not(x)
		}
	}
	if x.IsConst() { // canonical: constant on the right
		x, y = y, x
	}
	if y.IsConst() && x.kind == KBV && x.w <= 64 {
		k0, k1 := x.known()
		if k0&y.c != 0 || k1&^y.c != 0 {
			return tFalse
		}
	}
	// the same bits from the same sources in the same places: equal whatever
	// the variables are (and a constant bit that differs: never equal)
	if x.kind == KBV && x.w <= 64 && !x.IsConst() && !y.IsConst() {
		bx, by := s.bitsOf(x), s.bitsOf(y)
		same := true
		for i := range bx {
			if bx[i] != by[i] {
				same = false
				if bx[i].isConst() && by[i].isConst() {
					return tFalse
				}
			}
		}
		if same {
			return tTrue
		}
		// one side is a concatenation of independent pieces (three bytes
		// reassembled into a word, say): compare piece by piece, so that
		// "crc&0xffffff == b0<<16|b1<<8|b2" and "byte(crc>>16) == b0 && ..."
		// become the same atoms
		for side := 0; side < 2; side++ {
			u, v, bv := x, y, by
			if side == 1 {
				u, v, bv = y, x, bx
			}
			selfBits := false
			for _, b := range bv {
				if b.t == v {
					selfBits = true
					break
				}
			}
			if selfBits {
				continue
			}
			ps := piecesOf(bv)
			if len(ps) < 2 || len(ps) > 8 {
				continue
			}
			res := tTrue
			hi := v.w - 1
			for _, pc := range ps {
				lo := hi - pc.w + 1
				var pt *Term
				if pc.src == nil {
					pt = BV(pc.val, pc.w)
				} else {
					pt = s.rawExtract(pc.src, pc.hi, pc.lo)
				}
				res = s.And(res, s.Eq(s.Extract(u, hi, lo), pt))
				hi = lo - 1
			}
			return res
		}
	}
	// ite(c, k1, k2) == k  with constants: fold
	if y.IsConst() && x.op == OpIte && x.a[1].IsConst() && x.a[2].IsConst() {
		e1 := x.a[1].c == y.c
		e2 := x.a[2].c == y.c
		switch {
		case e1 && e2:
			return tTrue
		case e1:
			return x.a[0]
		case e2:
			return s.Not(x.a[0])
		default:
			return tFalse
		}
	}
	return s.mk(OpEq, KBool, 0, 0, 0, x, y)
}

// ---------------------------------------------------------------- bit-vectors

func (s *Store) bin(op Op, x, y *Term) *Term {
	if x.kind != KBV || y.kind != KBV || x.w != y.w {
		panic(engineError{fmt.Sprintf("bv op %d: width mismatch %d vs %d", op, x.w, y.w)})
	}
	w := x.w
	m := mask(w)
	if x.IsConst() && y.IsConst() {
		a, b := x.c, y.c
		switch op {
		case OpAdd:
			return BV(a+b, w)
		case OpSub:
			return BV(a-b, w)
		case OpMul:
			return BV(a*b, w)
		case OpUDiv:
			if b == 0 {
				return BV(m, w)
			}
			return BV(a/b, w)
		case OpURem:
			if b == 0 {
				return BV(a, w)
			}
			return BV(a%b, w)
		case OpSDiv:
			sa, sb := sext64(a, w), sext64(b, w)
			if sb == 0 {
				if sa < 0 {
					return BV(1, w)
				}
				return BV(m, w)
			}
			if sb == -1 {
				return BV(uint64(-sa), w)
			}
			return BV(uint64(sa/sb), w)
		case OpSRem:
			sa, sb := sext64(a, w), sext64(b, w)
			if sb == 0 {
				return BV(a, w)
			}
			if sb == -1 {
				return BV(0, w)
			}
			return BV(uint64(sa%sb), w)
		case OpAnd:
			return BV(a&b, w)
		case OpOr:
			return BV(a|b, w)
		case OpXor:
			return BV(a^b, w)
		case OpShl:
			if b >= uint64(w) {
				return BV(0, w)
			}
			return BV(a<<b, w)
		case OpLShr:
			if b >= uint64(w) {
				return BV(0, w)
			}
			return BV(a>>b, w)
		case OpAShr:
			sa := sext64(a, w)
			if b >= uint64(w) {
				b = uint64(w - 1)
			}
			return BV(uint64(sa>>b), w)
		}
	}
	// division and remainder by a constant power of two: shifts and masks
	// (bit-blasted dividers are what makes solvers slow here)
	if y.IsConst() && y.c != 0 && y.c&(y.c-1) == 0 && y.c < uint64(1)<<uint(w-1) {
		k := uint64(0)
		for uint64(1)<<k != y.c {
			k++
		}
		lowMask := BV(y.c-1, w)
		switch op {
		case OpUDiv:
			return s.bin(OpLShr, x, BV(k, w))
		case OpURem:
			return s.bin(OpAnd, x, lowMask)
		case OpSRem:
			// sign of the dividend: low bits, made negative when x < 0 and they are not zero
			if k == 0 {
				return BV(0, w)
			}
			low := s.bin(OpAnd, x, lowMask)
			neg := s.And(s.SLt(x, BV(0, w)), s.Not(s.Eq(low, BV(0, w))))
			return s.Ite(neg, s.bin(OpOr, low, BV(m&^(y.c-1), w)), low)
		case OpSDiv:
			// round towards zero: add 2^k-1 to a negative dividend first
			if k == 0 {
				return x
			}
			adj := s.Ite(s.SLt(x, BV(0, w)), lowMask, BV(0, w))
			return s.bin(OpAShr, s.bin(OpAdd, x, adj), BV(k, w))
		}
	}
	// identities
	switch op {
	case OpAdd, OpOr, OpXor:
		if x.IsConst() && x.c == 0 {
			return y
		}
		if y.IsConst() && y.c == 0 {
			return x
		}
	case OpSub, OpShl, OpLShr, OpAShr:
		if y.IsConst() && y.c == 0 {
			return x
		}
		if op != OpSub && x.IsConst() && x.c == 0 {
			return x
		}
	case OpAnd:
		if x.IsConst() {
			if x.c == 0 {
				return x
			}
			if x.c == m {
				return y
			}
		}
		if y.IsConst() {
			if y.c == 0 {
				return y
			}
			if y.c == m {
				return x
			}
		}
	case OpMul:
		if x.IsConst() {
			if x.c == 0 {
				return x
			}
			if x.c == 1 {
				return y
			}
		}
		if y.IsConst() {
			if y.c == 0 {
				return y
			}
			if y.c == 1 {
				return x
			}
		}
	}
	// (x >> k) & 1 and similar patterns are left to the solver.
	// Commutative ops: canonical order so hash-consing identifies a+b and b+a.
	switch op {
	case OpAdd, OpMul, OpAnd, OpOr, OpXor:
		if x.key() > y.key() {
			x, y = y, x
		}
	}
	r := s.mk(op, KBV, w, 0, 0, x, y)
	switch op {
	case OpAnd, OpOr, OpXor, OpShl, OpLShr:
		return s.normBits(r)
	}
	return r
}

func (s *Store) Add(x, y *Term) *Term  { return s.bin(OpAdd, x, y) }
func (s *Store) Sub(x, y *Term) *Term  { return s.bin(OpSub, x, y) }
func (s *Store) Mul(x, y *Term) *Term  { return s.bin(OpMul, x, y) }
func (s *Store) BAnd(x, y *Term) *Term { return s.bin(OpAnd, x, y) }
func (s *Store) BOr(x, y *Term) *Term  { return s.bin(OpOr, x, y) }
func (s *Store) BXor(x, y *Term) *Term { return s.bin(OpXor, x, y) }

func (s *Store) BVNot(x *Term) *Term {
	if x.IsConst() {
		return BV(^x.c, x.w)
	}
	return s.mk(OpBVNot, KBV, x.w, 0, 0, x)
}

func (s *Store) Neg(x *Term) *Term {
	if x.IsConst() {
		return BV(-x.c, x.w)
	}
	return s.mk(OpNeg, KBV, x.w, 0, 0, x)
}

func (s *Store) Extract(x *Term, hi, lo int) *Term {
	if hi == x.w-1 && lo == 0 {
		return x
	}
	w := hi - lo + 1
	if x.IsConst() {
		return BV(x.c>>uint(lo), w)
	}
	if x.op == OpZExt && hi < x.a[0].w {
		return s.Extract(x.a[0], hi, lo)
	}
	if x.op == OpSExt && hi < x.a[0].w {
		return s.Extract(x.a[0], hi, lo)
	}
	if x.w <= 64 {
		fm := mask(w) << uint(lo) // the bits of x the field reads
		switch x.op {
		case OpExtract:
			return s.Extract(x.a[0], hi+x.p2, lo+x.p2)
		case OpAnd, OpOr:
			// a constant operand that is neutral on the field drops out
			for i := 0; i < 2; i++ {
				if c := x.a[i]; c.IsConst() {
					if x.op == OpAnd && c.c&fm == fm {
						return s.Extract(x.a[1-i], hi, lo)
					}
					if x.op == OpOr && c.c&fm == 0 {
						return s.Extract(x.a[1-i], hi, lo)
					}
				}
			}
		case OpLShr:
			if c := x.a[1]; c.IsConst() && int(c.c)+hi < x.w {
				return s.Extract(x.a[0], hi+int(c.c), lo+int(c.c))
			}
		case OpShl:
			if c := x.a[1]; c.IsConst() && int(c.c) <= lo {
				return s.Extract(x.a[0], hi-int(c.c), lo-int(c.c))
			}
		}
		r := s.mk(OpExtract, KBV, w, hi, lo, x)
		if k := fromKnown(r); k != nil {
			return k
		}
		return s.normBits(r)
	}
	return s.mk(OpExtract, KBV, w, hi, lo, x)
}

func (s *Store) ZExt(x *Term, to int) *Term {
	if to == x.w {
		return x
	}
	if to < x.w {
		return s.Extract(x, to-1, 0)
	}
	if x.IsConst() {
		return BV(x.c, to)
	}
	if x.op == OpZExt {
		return s.ZExt(x.a[0], to)
	}
	return s.normBits(s.mk(OpZExt, KBV, to, to-x.w, 0, x))
}

func (s *Store) SExt(x *Term, to int) *Term {
	if to == x.w {
		return x
	}
	if to < x.w {
		return s.Extract(x, to-1, 0)
	}
	if x.IsConst() {
		return BV(uint64(sext64(x.c, x.w)), to)
	}
	return s.mk(OpSExt, KBV, to, to-x.w, 0, x)
}

func (s *Store) Concat(hi, lo *Term) *Term {
	w := hi.w + lo.w
	if hi.IsConst() && lo.IsConst() && w <= 64 {
		return BV(hi.c<<uint(lo.w)|lo.c, w)
	}
	return s.normBits(s.mk(OpConcat, KBV, w, 0, 0, hi, lo))
}

func (s *Store) cmp(op Op, x, y *Term) *Term {
	if x.w != y.w {
		panic(engineError{"cmp: width mismatch"})
	}
	if x.IsConst() && y.IsConst() {
		switch op {
		case OpULt:
			return Bool(x.c < y.c)
		case OpULe:
			return Bool(x.c <= y.c)
		case OpSLt:
			return Bool(sext64(x.c, x.w) < sext64(y.c, y.w))
		case OpSLe:
			return Bool(sext64(x.c, x.w) <= sext64(y.c, y.w))
		}
	}
	if x == y {
		return Bool(op == OpULe || op == OpSLe)
	}
	if op == OpULt && y.IsConst() && y.c == 0 {
		return tFalse
	}
	if op == OpULe && x.IsConst() && x.c == 0 {
		return tTrue
	}
	return s.mk(op, KBool, 0, 0, 0, x, y)
}

func (s *Store) ULt(x, y *Term) *Term { return s.cmp(OpULt, x, y) }
func (s *Store) ULe(x, y *Term) *Term { return s.cmp(OpULe, x, y) }
func (s *Store) SLt(x, y *Term) *Term { return s.cmp(OpSLt, x, y) }
func (s *Store) SLe(x, y *Term) *Term { return s.cmp(OpSLe, x, y) }

// ---------------------------------------------------------------- float64

func (s *Store) fbin(op Op, x, y *Term) *Term {
	if x.IsConst() && y.IsConst() {
		a, b := x.Float(), y.Float()
		switch op {
		case OpFAdd:
			return FP(a + b)
		case OpFSub:
			return FP(a - b)
		case OpFMul:
			return FP(a * b)
		case OpFDiv:
			return FP(a / b)
		}
	}
	return s.mk(op, KFP, 0, 0, 0, x, y)
}

func (s *Store) fcmp(op Op, x, y *Term) *Term {
	if x.IsConst() && y.IsConst() {
		a, b := x.Float(), y.Float()
		switch op {
		case OpFLt:
			return Bool(a < b)
		case OpFLe:
			return Bool(a <= b)
		case OpFEq:
			return Bool(a == b)
		}
	}
	if x == y {
		// fp.eq(x, x) holds unless x is NaN; x <= x likewise
		if op == OpFLt {
			return tFalse
		}
		return s.Not(s.FIsNaN(x))
	}
	return s.mk(op, KBool, 0, 0, 0, x, y)
}

func finiteNonZero(t *Term) bool {
	if !t.IsConst() {
		return false
	}
	f := t.Float()
	return f != 0 && !math.IsInf(f, 0) && !math.IsNaN(f)
}

// neverNaN: a syntactic sufficient condition.
func neverNaN(t *Term) bool {
	switch t.op {
	case OpConst:
		return !math.IsNaN(t.Float())
	case OpFFromS, OpFFromU:
		return true
	case OpFNeg, OpFAbs, OpFRound:
		return neverNaN(t.a[0])
	case OpFMul:
		return (finiteNonZero(t.a[0]) && neverNaN(t.a[1])) || (finiteNonZero(t.a[1]) && neverNaN(t.a[0]))
	case OpFDiv:
		return (finiteNonZero(t.a[1]) && neverNaN(t.a[0])) || (finiteNonZero(t.a[0]) && neverNaN(t.a[1]))
	case OpFAdd, OpFSub:
		return (finiteNonZero(t.a[0]) && neverNaN(t.a[1])) || (finiteNonZero(t.a[1]) && neverNaN(t.a[0]))
	case OpIte:
		return neverNaN(t.a[1]) && neverNaN(t.a[2])
	}
	return false
}

func (s *Store) FIsNaN(x *Term) *Term {
	if x.IsConst() {
		return Bool(math.IsNaN(x.Float()))
	}
	if neverNaN(x) {
		return tFalse
	}
	return s.mk(OpFIsNaN, KBool, 0, 0, 0, x)
}

func (s *Store) FAbs(x *Term) *Term {
	if x.IsConst() {
		return FP(math.Abs(x.Float()))
	}
	return s.mk(OpFAbs, KFP, 0, 0, 0, x)
}

// FRound: math.Floor (0), Ceil (1), Trunc (2), Round (3).
func (s *Store) FRound(x *Term, mode int) *Term {
	if x.IsConst() {
		f := x.Float()
		switch mode {
		case 0:
			f = math.Floor(f)
		case 1:
			f = math.Ceil(f)
		case 2:
			f = math.Trunc(f)
		default:
			f = math.Round(f)
		}
		return FP(f)
	}
	return s.mk(OpFRound, KFP, 0, mode, 0, x)
}

func (s *Store) FNeg(x *Term) *Term {
	if x.IsConst() {
		return FP(-x.Float())
	}
	return s.mk(OpFNeg, KFP, 0, 0, 0, x)
}

func (s *Store) FFromInt(x *Term, signed bool) *Term {
	if x.IsConst() {
		if signed {
			return FP(float64(sext64(x.c, x.w)))
		}
		return FP(float64(x.c))
	}
	if signed {
		return s.mk(OpFFromS, KFP, 0, 0, 0, x)
	}
	return s.mk(OpFFromU, KFP, 0, 0, 0, x)
}

func (s *Store) FToInt(x *Term, w int, signed bool) *Term {
	if x.IsConst() {
		f := x.Float()
		if signed {
			return BV(uint64(int64(f)), w)
		}
		return BV(uint64(f), w)
	}
	if signed {
		return s.mk(OpFToS, KBV, w, w, 0, x)
	}
	return s.mk(OpFToU, KBV, w, w, 0, x)
}

// ---------------------------------------------------------------- printing

func sortStr(k Kind, w int) string {
	switch k {
	case KBool:
		return "Bool"
	case KBV:
		return fmt.Sprintf("(_ BitVec %d)", w)
	default:
		return "(_ FloatingPoint 11 53)"
	}
}

func (t *Term) ref() string {
	if t.op == OpConst {
		switch t.kind {
		case KBool:
			if t.c == 1 {
				return "true"
			}
			return "false"
		case KBV:
			return fmt.Sprintf("(_ bv%d %d)", t.c, t.w)
		default:
			return fmt.Sprintf("((_ to_fp 11 53) #x%016x)", t.c)
		}
	}
	if t.op == OpVar {
		return "|" + smtName(t.name) + "|"
	}
	return fmt.Sprintf("t%d", t.id)
}

// smtName makes a variable name safe inside |...| quoting (no '|' or '\\');
// unSmtName is its inverse.
func smtName(n string) string {
	if !strings.ContainsAny(n, "|\\%") {
		return n
	}
	var sb strings.Builder
	for i := 0; i < len(n); i++ {
		c := n[i]
		if c == '|' || c == '\\' || c == '%' {
			fmt.Fprintf(&sb, "%%%02X", c)
		} else {
			sb.WriteByte(c)
		}
	}
	return sb.String()
}

func unSmtName(n string) string {
	if !strings.Contains(n, "%") {
		return n
	}
	var sb strings.Builder
	for i := 0; i < len(n); i++ {
		if n[i] == '%' && i+2 < len(n) {
			var v int
			if _, err := fmt.Sscanf(n[i+1:i+3], "%02X", &v); err == nil {
				sb.WriteByte(byte(v))
				i += 2
				continue
			}
		}
		sb.WriteByte(n[i])
	}
	return sb.String()
}

// body returns the SMT-LIB2 expression defining a non-leaf term.
func (t *Term) body() string {
	r := func(i int) string { return t.a[i].ref() }
	switch t.op {
	case OpExtract:
		return fmt.Sprintf("((_ extract %d %d) %s)", t.p1, t.p2, r(0))
	case OpZExt:
		return fmt.Sprintf("((_ zero_extend %d) %s)", t.p1, r(0))
	case OpSExt:
		return fmt.Sprintf("((_ sign_extend %d) %s)", t.p1, r(0))
	case OpFFromS:
		return fmt.Sprintf("((_ to_fp 11 53) RNE %s)", r(0))
	case OpFFromU:
		return fmt.Sprintf("((_ to_fp_unsigned 11 53) RNE %s)", r(0))
	case OpFToS:
		return fmt.Sprintf("((_ fp.to_sbv %d) RTZ %s)", t.p1, r(0))
	case OpFToU:
		return fmt.Sprintf("((_ fp.to_ubv %d) RTZ %s)", t.p1, r(0))
	case OpFRound:
		return fmt.Sprintf("(fp.roundToIntegral %s %s)", []string{"RTN", "RTP", "RTZ", "RNA"}[t.p1], r(0))
	}
	name, ok := opNames[t.op]
	if !ok {
		panic(engineError{fmt.Sprintf("no SMT name for op %d", t.op)})
	}
	var sb strings.Builder
	sb.WriteByte('(')
	sb.WriteString(name)
	for i := range t.a {
		sb.WriteByte(' ')
		sb.WriteString(r(i))
	}
	sb.WriteByte(')')
	return sb.String()
}

// String renders a term fully (for evidence samples and debugging), capped.
func (t *Term) String() string {
	var sb strings.Builder
	t.write(&sb, 0)
	return sb.String()
}

func (t *Term) write(sb *strings.Builder, depth int) {
	if t.op == OpConst || t.op == OpVar {
		sb.WriteString(t.ref())
		return
	}
	if depth > 6 || sb.Len() > 400 {
		sb.WriteString("…")
		return
	}
	switch t.op {
	case OpExtract:
		fmt.Fprintf(sb, "((_ extract %d %d) ", t.p1, t.p2)
	case OpZExt:
		fmt.Fprintf(sb, "((_ zero_extend %d) ", t.p1)
	case OpSExt:
		fmt.Fprintf(sb, "((_ sign_extend %d) ", t.p1)
	default:
		n := opNames[t.op]
		if n == "" {
			n = fmt.Sprintf("op%d", t.op)
		}
		sb.WriteString("(" + n + " ")
	}
	for i, a := range t.a {
		if i > 0 {
			sb.WriteByte(' ')
		}
		a.write(sb, depth+1)
	}
	sb.WriteByte(')')
}

// size returns the number of distinct DAG nodes under t (capped).
func (t *Term) size() int {
	seen := map[*Term]bool{}
	var rec func(*Term)
	rec = func(x *Term) {
		if seen[x] || len(seen) > 100000 {
			return
		}
		seen[x] = true
		for _, a := range x.a {
			rec(a)
		}
	}
	rec(t)
	return len(seen)
}

// ---------------------------------------------------------------- evaluation

// Eval evaluates t under a model (variable name -> raw bits).  Variables
// missing from the model evaluate to zero.  Memoised per call via cache.
func (s *Store) Eval(t *Term, model map[string]uint64, cache map[*Term]*Term) *Term {
	if t.op == OpConst {
		return t
	}
	if r, ok := cache[t]; ok {
		return r
	}
	var r *Term
	if t.op == OpVar {
		v := model[t.name]
		switch t.kind {
		case KBool:
			r = Bool(v != 0)
		case KBV:
			r = BV(v, t.w)
		default:
			r = &Term{op: OpConst, kind: KFP, c: v}
		}
		cache[t] = r
		return r
	}
	args := make([]*Term, len(t.a))
	for i, a := range t.a {
		args[i] = s.Eval(a, model, cache)
	}
	r = s.rebuild(t, args)
	cache[t] = r
	return r
}

// subst replaces variables by terms (a partial substitution: variables not
// in the map stay).
func (s *Store) subst(t *Term, repl map[*Term]*Term) *Term {
	if len(repl) == 0 {
		return t
	}
	cache := map[*Term]*Term{}
	var rec func(x *Term) *Term
	rec = func(x *Term) *Term {
		if x.op == OpConst {
			return x
		}
		if x.op == OpVar {
			if r, ok := repl[x]; ok {
				return r
			}
			return x
		}
		if r, ok := cache[x]; ok {
			return r
		}
		args := make([]*Term, len(x.a))
		changed := false
		for i, a := range x.a {
			args[i] = rec(a)
			if args[i] != a {
				changed = true
			}
		}
		r := x
		if changed {
			r = s.rebuild(x, args)
		}
		cache[x] = r
		return r
	}
	return rec(t)
}

func (s *Store) rebuild(t *Term, a []*Term) *Term {
	switch t.op {
	case OpAdd, OpSub, OpMul, OpUDiv, OpURem, OpSDiv, OpSRem, OpAnd, OpOr, OpXor, OpShl, OpLShr, OpAShr:
		return s.bin(t.op, a[0], a[1])
	case OpBVNot:
		return s.BVNot(a[0])
	case OpNeg:
		return s.Neg(a[0])
	case OpExtract:
		return s.Extract(a[0], t.p1, t.p2)
	case OpZExt:
		return s.ZExt(a[0], t.w)
	case OpSExt:
		return s.SExt(a[0], t.w)
	case OpConcat:
		return s.Concat(a[0], a[1])
	case OpIte:
		return s.Ite(a[0], a[1], a[2])
	case OpEq:
		return s.Eq(a[0], a[1])
	case OpULt, OpULe, OpSLt, OpSLe:
		return s.cmp(t.op, a[0], a[1])
	case OpNot:
		return s.Not(a[0])
	case OpBAnd:
		return s.And(a[0], a[1])
	case OpBOr:
		return s.Or(a[0], a[1])
	case OpFAdd, OpFSub, OpFMul, OpFDiv:
		return s.fbin(t.op, a[0], a[1])
	case OpFNeg:
		return s.FNeg(a[0])
	case OpFAbs:
		return s.FAbs(a[0])
	case OpFRound:
		return s.FRound(a[0], t.p1)
	case OpFLt, OpFLe, OpFEq:
		return s.fcmp(t.op, a[0], a[1])
	case OpFFromS:
		return s.FFromInt(a[0], true)
	case OpFFromU:
		return s.FFromInt(a[0], false)
	case OpFToS:
		return s.FToInt(a[0], t.w, true)
	case OpFToU:
		return s.FToInt(a[0], t.w, false)
	case OpFIsNaN:
		return s.FIsNaN(a[0])
	}
	panic(engineError{fmt.Sprintf("rebuild: op %d", t.op)})
}

type engineError struct{ msg string }

func (e engineError) Error() string { return "gosym engine error: " + e.msg }
