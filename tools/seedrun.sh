#!/bin/sh
# usage: seedrun.sh <seed id> <property> [more properties to run]   (worktree /tmp/seed/<seed id>)
# confirm + store the seed, then run the quick check(s) of the given properties against the worktree.
sid="$1"; prop="$2"; shift 1
d=/tmp/seed/$sid
cd /verif
if [ ! -f seeded/$sid/confirm.txt ]; then tools/seedkeep.sh $d $sid $prop || exit 3; fi
( cd $d && git ls-files --others --exclude-standard | xargs -r rm -f )
for p in "$@"; do
  echo "== check $p on $sid"
  timeout ${SEED_TIMEOUT:-900} ./bin/gosym check $p --repo $d --no-evidence ${SEED_FLAGS:-} 2>&1 | grep -E "^(VIOLATION|OK|KNOWN|  harness|gosym|warning|note)" | cut -c1-260 | head -8 | tee seeded/$sid/check_$p.txt
done
