#!/usr/bin/env python3
"""Rewrites the seeded-change table in DESIGN.md (between the SEED-TABLE markers) from seeded/*/meta.json."""
import json, glob, re, os
rows = []
for f in sorted(glob.glob('/verif/seeded/*/meta.json')):
    m = json.load(open(f))
    caught = [p for p, c in m['checks'].items() if c['detected']]
    missed = [p for p, c in m['checks'].items() if not c['detected']]
    note = m.get('note', '')
    res = ('caught by ' + ', '.join(caught)) if caught else 'NOT caught'
    if missed and caught:
        res += ' (not by ' + ', '.join(missed) + ')'
    if note:
        res += '; ' + note
    rows.append(f"| {m['seed']} | {m['breaks_property']} | {m['needs_to_manifest']} | {res} |")
table = "| seed | property | what it needs to manifest | result |\n|---|---|---|---|\n" + "\n".join(rows)
p = '/verif/DESIGN.md'
s = open(p).read()
if 'SEED-TABLE-BEGIN' in s:
    s = re.sub(r'<!-- SEED-TABLE-BEGIN -->.*<!-- SEED-TABLE-END -->', '<!-- SEED-TABLE-BEGIN -->\n' + table + '\n<!-- SEED-TABLE-END -->', s, flags=re.S)
else:
    s = s.replace('SEED-TABLE', '<!-- SEED-TABLE-BEGIN -->\n' + table + '\n<!-- SEED-TABLE-END -->', 1)
open(p, 'w').write(s)
print(len(rows), 'seeds in the table')
