#!/usr/bin/env python3
"""Rewrites the 'paths / time' column of the at-a-glance table in DESIGN.md section 6 from the evidence files
(quick tier numbers of the last ./check runs)."""
import json, re, glob
p = '/verif/DESIGN.md'
s = open(p).read()
for f in sorted(glob.glob('/verif/evidence/C*.json')):
    e = json.load(open(f))
    if e.get('tier') != 'quick':
        continue
    pid = e['property_id']
    paths = e['coverage']['states']
    wall = e['wall_s']
    cell = f"{paths:,}".replace(',', ' ') + f" / {wall:.0f} s"
    s, n = re.subn(r'(\| %s \| [^|]*\| )[^|]*( \|)' % pid, lambda m: m.group(1) + cell + m.group(2), s, count=1)
open(p, 'w').write(s)
print('table updated')
