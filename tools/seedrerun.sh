#!/bin/sh
# usage: seedrerun.sh <seed id> <property>...   re-applies /verif/seeded/<id>/patch.diff to a scratch worktree and runs the quick checks on it
sid="$1"; shift
d=/tmp/seedre/$sid; mkdir -p /tmp/seedre
git -C /repo worktree add -q --detach $d HEAD || exit 3
git -C $d apply /verif/seeded/$sid/patch.diff || { echo "patch does not apply"; git -C /repo worktree remove --force $d; exit 3; }
cd /verif
for p in "$@"; do
  echo "== check $p on $sid"
  timeout ${SEED_TIMEOUT:-900} ./bin/gosym check $p --repo $d --no-evidence ${SEED_FLAGS:-} 2>&1 | grep -E "^(VIOLATION|OK|KNOWN|  harness|gosym|warning|note)" | cut -c1-260 | head -8 | tee seeded/$sid/check_$p.txt
done
git -C /repo worktree remove --force $d
