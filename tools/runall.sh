#!/bin/sh
# usage: runall.sh [quick|thorough]  -- every claimed check in MANIFEST.json, with wall time
cd "$(dirname "$0")/.."
tier=${1:-quick}
for p in $(python3 -c "import json;print(' '.join(c['property_id'] for c in json.load(open('MANIFEST.json'))['checks']))"); do
  s=$(date +%s); out=$(timeout ${CHECK_TIMEOUT:-3000} ./check $p $tier 2>&1 | grep -E "^(OK|VIOLATION|KNOWN|gosym|note|warning)" | cut -c1-200 | tail -3); e=$(date +%s)
  echo "$p $((e-s))s: $out"
done
