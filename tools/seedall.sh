#!/bin/sh
# usage: seedall.sh  -- re-applies every stored seeded change to a scratch worktree of /repo's HEAD and runs the quick
# check(s) recorded for it; prints one line per seed.  (Regression of the checks against the seeds.)
cd /verif
for m in seeded/*/meta.json; do
  sid=$(basename $(dirname $m))
  props=$(python3 -c "import json;print(' '.join(json.load(open('$m'))['checks'].keys()))")
  d=/tmp/seedre/$sid; mkdir -p /tmp/seedre; rm -rf $d
  git -C /repo worktree add -q --detach $d HEAD || { echo "$sid: worktree failed"; continue; }
  if ! git -C $d apply /verif/seeded/$sid/patch.diff 2>/dev/null; then
    if ! git -C $d apply --3way /verif/seeded/$sid/patch.diff 2>/dev/null; then echo "$sid: PATCH DOES NOT APPLY to HEAD"; git -C /repo worktree remove --force $d; continue; fi
  fi
  res=""
  for p in $props; do
    out=$(timeout ${SEED_TIMEOUT:-1200} ./bin/gosym check $p --repo $d --no-evidence 2>&1 | grep -E "^(VIOLATION|OK|gosym)" | sort -r | head -1 | cut -c1-60)
    case "$out" in VIOLATION*) res="$res $p:caught";; OK*) res="$res $p:MISSED";; *) res="$res $p:BROKEN($out)";; esac
  done
  echo "$sid:$res"
  git -C /repo worktree remove --force $d
done
