#!/bin/sh
# usage: refactorall.sh  -- applies each stored behaviour-preserving refactoring (refactors/Rn/patch.diff, written by an
# independent sub-agent) to a scratch worktree of /repo's HEAD and runs every registered quick check on it.
# Expected: no VIOLATION anywhere (a check must never raise an alarm on code where the property holds).
cd /verif
for r in refactors/R*; do
  n=$(basename $r); d=/tmp/refre/$n; mkdir -p /tmp/refre; rm -rf $d
  git -C /repo worktree add -q --detach $d HEAD || continue
  git -C $d apply /verif/$r/patch.diff || { echo "$n: patch does not apply"; git -C /repo worktree remove --force $d; continue; }
  for p in $(python3 -c "import json;print(' '.join(c['property_id'] for c in json.load(open('MANIFEST.json'))['checks']))"); do
    out=$(timeout 1500 ./bin/gosym check $p --repo $d --no-evidence 2>&1 | grep -E "^(OK|VIOLATION|gosym|note)" | cut -c1-150 | tr '\n' '|')
    echo "$n $p: $out"
  done
  git -C /repo worktree remove --force $d
done
