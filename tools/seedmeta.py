#!/usr/bin/env python3
"""usage: seedmeta.py <seed id> <property> <needs text>  -- writes /verif/seeded/<id>/meta.json from confirm.txt and check_*.txt"""
import json, sys, os, glob
sid, prop, needs = sys.argv[1:4]
d = f"/verif/seeded/{sid}"
conf = open(f"{d}/confirm.txt").read().splitlines()
checks = {}
for f in sorted(glob.glob(f"{d}/check_*.txt")):
    p = os.path.basename(f)[6:-4]
    txt = open(f).read()
    checks[p] = {"detected": "VIOLATION" in txt, "first_lines": txt.splitlines()[:4]}
meta = {"seed": sid, "breaks_property": prop, "needs_to_manifest": needs,
        "origin": "independent sub-agent given only the property text and a scratch worktree",
        "confirmed": conf,
        "ran": [f"tools/seedkeep.sh /tmp/seed/{sid} {sid} {prop}  (suite with change; demo with and without the change)"] +
               [f"./bin/gosym check {p} --repo /tmp/seed/{sid} (quick tier)" for p in checks],
        "checks": checks}
json.dump(meta, open(f"{d}/meta.json", "w"), indent=1)
print(sid, {p: c["detected"] for p, c in checks.items()})
