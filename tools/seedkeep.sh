#!/bin/sh
# usage: seedkeep.sh <worktree dir> <seed id> <property>
# Confirms a sub-agent's seeded change (suite green except the baseline failure, demo fails with / passes without),
# then stores patch.diff + demo + report under /verif/seeded/<seed id>/.  Does not run any check.
set -u
d="$1"; sid="$2"; prop="$3"
export GOFLAGS=-mod=mod GOPROXY=off GOSUMDB=off GOTOOLCHAIN=local
out=/verif/seeded/$sid; mkdir -p "$out"
cd "$d" || exit 3
git diff > "$out/patch.diff"
[ -s "$out/patch.diff" ] || { echo "no tracked change in $d"; exit 3; }
demos=$(git ls-files --others --exclude-standard | grep -v SEED_REPORT.md)
echo "demo files: $demos"
for f in $demos; do mkdir -p "$out/demo/$(dirname $f)"; cp "$f" "$out/demo/$f"; done
cp SEED_REPORT.md "$out/" 2>/dev/null
# 1. suite with the change, demo files moved away
tmpd=$(mktemp -d /tmp/seedk.XXXXXX)
for f in $demos; do mkdir -p "$tmpd/$(dirname $f)"; mv "$f" "$tmpd/$f"; done
go build ./... || { echo "BUILD FAILS"; }
suite_with=$(go test -vet=off -count=1 ./... 2>&1 | grep -E "^(--- FAIL|FAIL|panic)" | sort | tr '\n' ';')
echo "suite with change: $suite_with"
for f in $demos; do mv "$tmpd/$f" "$f"; done
# 2. demo with the change
pkgs=$(for f in $demos; do echo "./$(dirname $f)"; done | sort -u | tr '\n' ' ')
demo_with=$(go test -vet=off -count=1 $pkgs 2>&1 | grep -E "^(--- FAIL|FAIL|ok|panic)" | grep -v "TestString " | tr '\n' ';')
echo "demo with change: $demo_with"
# 3. demo without
# (not git stash: the stash is shared by all worktrees of the repository)
git apply -R "$out/patch.diff" || { echo "cannot reverse the patch"; exit 3; }
demo_without=$(go test -vet=off -count=1 $pkgs 2>&1 | grep -E "^(--- FAIL|FAIL|ok|panic)" | tr '\n' ';')
git apply "$out/patch.diff"
echo "demo without change: $demo_without"
rm -rf "$tmpd"
cat > "$out/confirm.txt" <<EOF
property: $prop
suite with change (FAIL lines; baseline has only TestString in rtcm/handler): $suite_with
demo with change: $demo_with
demo without change: $demo_without
EOF
