#!/bin/sh
# usage: trymut.sh PROP FILE SED_EXPR [extra gosym flags]  -- apply a one-line mutation in a scratch worktree and run the quick check on it
prop="$1"; file="$2"; expr="$3"; shift 3
d=$(mktemp -d /tmp/mut.XXXXXX); rmdir $d
git -C /repo worktree add -q "$d" HEAD || exit 3
sed -i "$expr" "$d/$file"
if git -C "$d" diff --quiet; then echo "MUTATION DID NOT APPLY: $expr"; git -C /repo worktree remove --force "$d"; exit 3; fi
git -C "$d" diff | grep '^[+-][^+-]' | head -4
(cd "$d" && GOFLAGS=-mod=mod GOPROXY=off go build ./... 2>&1 | head -3)
(cd /verif && timeout ${MUT_TIMEOUT:-600} ./bin/gosym check "$prop" --repo "$d" --no-evidence "$@" 2>&1 | grep -E "^(VIOLATION|OK|KNOWN|  harness|gosym|warning|note)" | cut -c1-250 | head -8)
echo "exit=$?"
git -C /repo worktree remove --force "$d"
