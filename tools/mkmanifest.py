#!/usr/bin/env python3
"""Regenerates /verif/MANIFEST.json from the table below (single source of truth)."""
import json, os, sys

ROOT = os.path.dirname(os.path.dirname(os.path.abspath(__file__)))

TECH = ("bounded symbolic execution of the real Go code (go/ssa interpreter with symbolic values, "
        "regenerated from /repo's working tree on every run) with an SMT solver (z3 5.1.0 via z3-new) deciding every "
        "branch and assertion; counterexamples replayed natively")

TECH2 = ("bounded symbolic execution of the real Go code (go/ssa interpreter with symbolic data, encoding regenerated from /repo on every run) "
         "extended with a cooperative scheduler: goroutine interleavings are explicit choice points explored under a stated preemption bound, "
         "data stays symbolic and every equality is an SMT obligation (z3 5.1.0); counterexamples replayed natively with slow environment objects")

# property -> (claimed?, level text, level note, design ref) ; unclaimed -> reason
CLAIMED = {
    "C01": dict(
        text="Bounded model checking of GetMessage, FetchNextMessageFrame and HandleMessages on fully symbolic buffers/streams "
             "(quick: buffers <= 14 B, one stream step from any reachable push-back state over <= 10 B, whole streams <= 7 B; thorough 40/16/10): "
             "every typed message without error is exactly one frame per an independent specification (preamble, reserved bits, non-zero length == payload size, CRC-24Q over the exact linear CRC model) and its type is the first 12 payload bits. The same holds for an arbitrary buffer handled after a valid frame or arbitrary bytes on the same handler.",
        note="exact GF(2)-linear CRC-24Q model validated per run against the dependency's Hash interpreted from source; streams/buffers longer than the bound are outside the claim (the one-step harness is inductive over calls).",
        ref="DESIGN.md section 6, C01"),
    "C02": dict(
        text="For all streams within the bound the solver shows the delivered raw bytes concatenate to the input, no message is empty, "
             "the output is closed exactly once (a missing close is a deadlock of the draining harness), and one FetchNextMessageFrame step from "
             "any reachable push-back state delivers a non-empty prefix and leaves exactly the remainder (inductive step); with a producer goroutine, the handler goroutine and a draining consumer, channel capacities 0/1/2 and the lazy, round-robin and one-preemption schedules the delivered bytes are still exactly the input. Also on C12's corrupted-segment family and on runs of 1029..8193 bytes of other data before a frame.",
        note="as C01; schedules: switches at synchronisation operations only, at most one preemption.",
        ref="DESIGN.md section 6, C02"),
    "C03": dict(
        text="Segment shapes enumerated (<= 3 segments of junk 1..3 B / frames with payload 1,2,3,5 B, truncated tail at every cut; long frames 255/256/1023 B; thorough: payload 1,2,3,5,8, junk 1,2,3,8, 257/1022), contents symbolic "
             "(all 4096 types, every CRC value, 0xD3 inside payload/CRC): exactly one message per segment, in order, with exactly its bytes and type. After a run of 1029..8193 bytes of other data (however it is cut) the frame is recognised exactly once.",
        note="shapes outside the enumerated family are outside the claim; CRC model as C01.",
        ref="DESIGN.md section 6, C03"),
    "C04": dict(
        text="A reference encoder written from the standard's field tables builds MSM4/MSM7 frames from symbolic field values (every field over its full width, multiple-message flag symbolic); the real decoder must accept the frame and reproduce every header field, mask, satellite cell and signal cell, attached to the right satellite and signal id, for every cell mask of eight small shapes at three placements, 0..10 zero padding bytes (thorough 0..24), all 14 message types and wide shapes up to the 64-cell limit; the mask expansion on its own for eight symbolic mask bits in a window at 3 (thorough: every) position of the satellite and of the signal mask. A subject message decoded after a predecessor message (eleven shape pairs sharing cell-mask value, bit count or shape) decodes as in a fresh state.",
        note="mask SHAPES are enumerated (concrete) because the mask-expansion loops fork per bit; shapes outside the family are outside the claim; CRC model as C01.",
        ref="DESIGN.md section 6, C04"),
    "C05": dict(
        text="1005/1006 frames built by a reference encoder from symbolic field values (exhaustive in the values) decode to exactly those values with 0..4 trailing bytes; every truncated length and every wrong type is rejected; the display at both log levels shows the three (four) coordinates as the decoded integer count of 0.1 mm divided by 10000 with four decimals.",
        note="for a %.4f rendering the solver shows the operand is float64(field)*0.0001 with |field| < 2^37 and the digit rendering by strconv is argued, not solved; an integer rendering (%d.%04d) is decided by the solver including the sign of values between -1 m and 0.",
        ref="DESIGN.md section 6, C05"),
    "C06": dict(
        text="Every timestamp is packed into a CRC-valid MSM frame and sent through Handler.GetMessage; the true instant is defined from (week number, timestamp) with the property's reference arithmetic. For a start time symbolic to the nanosecond over nine days and histories of 2 (thorough 3) messages of any constellation and MSM4/MSM7 under the property's precondition, SentAt and StartOfWeek name exactly the true instant and week start; an illegal timestamp is reported as an error and later valid messages are still correct; an inductive step from an arbitrary handler state satisfying the week-start/previous-timestamp invariant covers histories of any length and any number of rollovers, and shows the other constellations' state is untouched.",
        note="abstract instant model of time.Time (ite chains over day boundaries inside a solver-checked window); queries decided over the integers with explicit mod 2^64; histories longer than the bound are outside the claim.",
        ref="DESIGN.md section 6, C06",
        technique="bounded symbolic execution of the real Go code (go/ssa interpreter, encoding regenerated from /repo on every run) with an SMT solver (z3 5.1.0, linear integer arithmetic back end) deciding every branch and assertion; counterexamples replayed natively"),
    "C17": dict(
        text="As C06 with the first observation of each constellation anywhere in the start time's constellation week - before, at or after the start time: the reported times equal the true observation times for histories of 2 (thorough 3) messages.",
        note="as C06.",
        ref="DESIGN.md section 6, C17",
        technique="bounded symbolic execution of the real Go code (go/ssa interpreter, encoding regenerated from /repo on every run) with an SMT solver (z3 5.1.0, linear integer arithmetic back end) deciding every branch and assertion; counterexamples replayed natively"),
    "C07": dict(
        text="Every Go safety condition (index, slice bounds, nil dereference, division, type assertion, channel misuse), every deadlock and every unwinding-limit hit is an obligation on the "
             "framing paths over arbitrary buffers/streams (GetMessage <= 14 B, stream step <= 10 B, stream <= 7 B; thorough 24/16/10) followed by String() at both log levels, and on the "
             "decoder and display paths over CRC-valid 1005/1006/MSM4/MSM7 frames with arbitrary payload bits at every payload length (mask shapes concrete incl. shapes announcing more than fits; cell mask and all other bits symbolic), and over every 30-bit timestamp of every MSM type. Sequences of two well-formed MSM frames of different shapes through one process state are decoded and displayed without a crash.",
        note="fmt/hex/time internals are stubs that never panic; inputs beyond the bounds are outside the claim.",
        ref="DESIGN.md section 6, C07"),
    "C08": dict(
        text="Integer kernels (aggregate range / phase range / rate, MSM4 and MSM7, invalid markers, MSM4-vs-MSM7 agreement) decided exactly over the whole field domain as bit-vector queries; "
             "the floating-point tails are shown identical, term for term, to the standard's formula applied to the same exact integer; the wavelength table for all four constellations and all 2^64 signal ids. The wavelength of a signal is the same after a lookup of any other (constellation, signal id).",
        note="'to within floating-point rounding' and the %.3f rendering are argued from the exactness of the integer (< 2^41), not solver-checked; FP obligations are decided by syntactic identity or refuted by evaluation under solver models.",
        ref="DESIGN.md section 6, C08"),
    "C09": dict(
        text="The real reader-to-sinks pipeline (file handler goroutine, framing goroutine, fan-out loop) runs under the engine's scheduler with a fast, a nil and a slow consumer, three channel-capacity settings and three input chunkings (one of them reporting io.EOF together with the last bytes), on five input shapes with symbolic contents (one longer than a kilobyte with independently built expectations): under the lazy, the round-robin and every one-preemption schedule each consumer receives exactly the sequence sequential framing of the same bytes produces, the call returns 0, all helper goroutines finish, nothing is closed twice or sent on a closed channel, nothing deadlocks.",
        note="interleavings at synchronisation granularity under sequential consistency: data races are outside the claim; schedules with more than one preemption are outside the bound.",
        ref="DESIGN.md sections 5 and 6, C09", technique="bounded symbolic execution of the real Go code (go/ssa interpreter with symbolic data, encoding regenerated from /repo on every run) extended with a cooperative scheduler: goroutine interleavings are explicit choice points explored under a stated preemption bound, data stays symbolic and every equality is an SMT obligation (z3 5.1.0); counterexamples replayed natively with a slow writer"),
    "C10": dict(
        text="writeRTCMMessages alone, over symbolic messages and a writer that may fail at any call, writes exactly the raw bytes of the typed messages in order up to the failure; the composed rtcmfilter.HandleMessages (real file handler, framing, fan-out and writer goroutines; display and record on and off; inputs with junk, a CRC-damaged frame and a truncated frame, symbolic contents) leaves exactly the valid frames on the output writer and in the record log, and the display log holds exactly one rendered entry per delivered message, under the lazy, round-robin and one-preemption schedules.",
        note="the daily logger is a recording stub in the engine (natively the real logger in a scratch directory); that the delivered messages are the valid frames is C01/C03/C12.",
        ref="DESIGN.md section 6, C10", technique="bounded symbolic execution of the real Go code (go/ssa interpreter with symbolic data, encoding regenerated from /repo on every run) extended with a cooperative scheduler: goroutine interleavings are explicit choice points explored under a stated preemption bound, data stays symbolic and every equality is an SMT obligation (z3 5.1.0); counterexamples replayed natively with a slow writer"),
    "C11": dict(
        text="displayrtcm3.HandleMessages and rtcmfilter.HandleMessages run with their real goroutines and a slow writer under the lazy, round-robin and every one-preemption schedule: at the instant the function returns the writer holds every byte and every Write it holds once all goroutines have come to rest.",
        note="found and natively confirmed the lost-tail defect on the original tree (fixed by 54f882a); as C09 for the schedule bound.",
        ref="DESIGN.md sections 5 and 6, C11", technique="bounded symbolic execution of the real Go code (go/ssa interpreter with symbolic data, encoding regenerated from /repo on every run) extended with a cooperative scheduler: goroutine interleavings are explicit choice points explored under a stated preemption bound, data stays symbolic and every equality is an SMT obligation (z3 5.1.0); counterexamples replayed natively with a slow writer"),
    "C12": dict(
        text="C03's segment family with one victim frame whose payload+CRC bytes are XOR-ed with a symbolic difference assumed (through the exact CRC model) to break the CRC: "
             "the victim is delivered as one non-RTCM message with exactly its bytes and every other segment exactly as before. An MSM neighbour after a corrupted MSM frame (symbolic timestamp) is reported with the time and start of week it has without the victim.",
        note="as C03.",
        ref="DESIGN.md section 6, C12"),
    "C13": dict(
        text="The real Handle runs on a real bufio.Reader (interpreted from source, so the reader's buffering is explored) over a scripted reader whose every call is, nondeterministically, a chunk of symbolic bytes (possibly after a pause longer than the tolerance), nothing, EOF, an i/o timeout or another error, with the real framing goroutine running under the engine's scheduler: what reaches the message channel is byte for byte what the script supplied, no message is empty, the output is closed, another read error stops the run at once, zero tolerance stops at the first interruption, and with a tolerance a single interruption never ends the run; a source that stays silent for good (io.EOF and freshly made timeout errors alternating) makes the handler give up.",
        note="clock: time advances by sleeps and declared pauses plus a bounded jitter (stated bound); schedules: lazy and round-robin switching at synchronisation operations; 3 reader calls.",
        ref="DESIGN.md section 6, C13"),
    "C15": dict(
        text="Self-composition over symbolic frames of ten kinds at both log levels: the type, raw bytes, error text and readable text (MSM time lines excluded) produced by a fresh handler equal those produced by a handler that has already processed other frames and the same frame; displaying a message three times gives identical text and never changes its raw bytes or error text; displaying one by-value copy of a delivered message leaves the other copy's fields and raw bytes untouched and both display the same. Two goroutines with a handler each decode and display the same frame (the ten kinds and a frame of symbolic type) under an isolation monitor: no memory cell or map of the code under test written by one is used by the other; both see what a single handler shows.",
        note="histories by self-composition inside one process (a process-wide cache affects both runs alike and needs an independent oracle: C08 has one for wavelengths); the concurrent half through the isolation monitor for two independent goroutines (confirmed natively by the race detector over all 4095 types); other unsynchronised accesses are outside the claim.",
        ref="DESIGN.md section 6, C15"),
    "C16": dict(
        text="The real start(cfg) of rtcmlogger runs with its copying loop on a scripted standard input (0..5 symbolic bytes in reads of 1..3 bytes) and its recorder goroutine on the daily logger, under the lazy, round-robin and one-preemption schedules: standard output is identical to the input, and at the instant start returns - where the program exits - the day's record already holds exactly the input; later overwrites of the read buffer cannot change a block already handed to the recorder (checked through aliasing in the symbolic heap). With a standard output whose every write fails the record is complete all the same.",
        note="found and natively confirmed the lost last block on the original tree (fixed by 575b6bc; the real binary lost it in 100 of 100 runs on a two-block input); blocks longer than 3 bytes and read errors are outside the bound.",
        ref="DESIGN.md sections 5 and 6, C16", technique=TECH2),
    "C19": dict(
        text="Relay: the real handleMessages (both relay loops, the real RTCM parser and queue goroutines) on scripted connections with chunks of symbolic bytes, under the lazy, round-robin and one-preemption schedules: the server receives exactly the client's bytes in order whatever they are, the client receives the server's bytes unaltered, the parser never stops the relay (no panic, no deadlock, the call returns), a client that reads late (blocking writes) does not hold up the other direction, reads that fill the relay's 2048-byte buffer lose nothing, and the queued messages are a prefix of the relayed client stream. Report: the real Status() over symbolic traffic (client and server buffers, non-RTCM data, a listed message, a listed message with an error text): no traffic byte can add a '<' or '>' to the page (the page for the same traffic shape with harmless bytes has the same number of each).",
        note="found and natively confirmed the unescaped message list on the original tree (fixed by 8ec93f5); TCP/TLS/HTTP are outside the claim; that parsing cannot crash on any data is C07.",
        ref="DESIGN.md section 6, C19", technique=TECH2),
    "C18": dict(
        text="Bounded histories (capacities 1..4, thorough 1..8; up to capacity+3 additions; symbolic messages; both map iteration orders) give exactly the last min(N,n) messages in order and never more than N; one addition from an arbitrary valid state with a symbolic next index keeps the invariant and shifts the contents by one (covers long runs far beyond the capacity; where the step leaves the invariant the queue is followed and judged by its snapshots only); a lock-set monitor shows every access to the queue state inside Add/GetMessages holds the right lock and the lock is free on return; one adder and one reader on a full queue under the lazy, round-robin and one-preemption (thorough: two) schedules: every snapshot is a contiguous run consistent with real time.",
        note="the concurrent clause is covered through the lock discipline (sequential consistency under the lock), confirmed natively by the race detector on a stress run; index values >= 2^62 are outside the claim.",
        ref="DESIGN.md section 6, C18"),
    "C14": dict(
        text="For every width 1..64 (signed 2..64) and every bit position 0..15 (thorough: 0..135) the solver shows, over ALL "
             "buffer contents, that unsigned/signed extraction returns exactly the addressed bits, reads no byte past the "
             "field and is independent of every bit outside it; exhaustive in (width, position), symbolic in the data.",
        note="go/ssa translation + my interpreter (validated per run by replaying path models natively); z3 5.1.0; "
             "positions >= 136 are outside the bound (the function depends on the position only through i/8 and i%8).",
        ref="DESIGN.md section 6, C14"),
    "C20": dict(
        text="One symbolic int (all 2^64 values) through MSM4/MSM7/MSM/GetConstellation/GetTitleAndComment, and one symbolic 12-bit type inside a CRC-valid header-sized frame through GetMessage, "
             "GetMSMHeader, both decoder families, Analyse and String at both log levels: the classifications agree with the documented table for every value; exhaustive.",
        note="titles: non-emptiness only.",
        ref="DESIGN.md section 6, C20"),
}

NOT_APPLICABLE = {
}

WIP = "check not built yet in this session (work in progress; see DESIGN.md section 10 for the build order)"

def main():
    props = [json.loads(l) for l in open(os.path.join(ROOT, "properties.jsonl"))]
    checks, na = [], []
    for p in props:
        pid = p["id"]
        if pid in CLAIMED:
            c = CLAIMED[pid]
            checks.append({
                "property_id": pid,
                "quick_cmd": f"./check {pid} quick",
                "thorough_cmd": f"./check {pid} thorough",
                "evidence_file": f"/verif/evidence/{pid}.json",
                "replay_cmd_template": "./bin/gosym replay {path}",
                "engine": "gosym",
                "level_claimed": {"category": "model_checking", "text": c["text"], "design_ref": c["ref"]},
                "level_note": c["note"],
                "technique": c.get("technique", TECH),
            })
        else:
            na.append({"property_id": pid, "reason": NOT_APPLICABLE.get(pid, WIP)})
    m = {
        "version": 1,
        "setup_cmd": "cd /verif/engine && GOFLAGS=-mod=mod GOPROXY=off GOSUMDB=off GOTOOLCHAIN=local go build -o /verif/bin/gosym .",
        "hooks": {
            "guard": "verifharness",
            "enable": "harness files under /verif/harness are injected into the packages they test with go/packages "
                      "Overlay (engine) and `go test -overlay ... -tags verifharness` (native replay); nothing is written to /repo",
            "baseline_off_cmd": "cd /repo && GOFLAGS=-mod=mod GOPROXY=off GOSUMDB=off go test -json -vet=off -count=1 -timeout 25m ./...",
            "source_commits": [],
            "add_only": True,
        },
        "engines": [{
            "name": "gosym",
            "path": "/verif/engine",
            "serves_properties": [c["property_id"] for c in checks],
            "kind_free_text": "own SSA-level symbolic executor for Go (x/tools go/ssa v0.29.0) emitting SMT-LIB2 to a live solver process; "
                              "path exploration by re-execution, exact GF(2)-linear CRC-24Q model, abstract time, structured strings, cooperative goroutine scheduler",
        }],
        "checks": checks,
        "not_applicable": na,
        "notes": "All checks: ./check <id> quick|thorough (wrapper builds the engine if needed, then runs bin/gosym). "
                 "Exit 0 = held on everything explored; exit 1 + VIOLATION line = replayed counterexample; exit 2 = the check itself is broken.",
    }
    json.dump(m, open(os.path.join(ROOT, "MANIFEST.json"), "w"), indent=1)
    print("MANIFEST.json:", len(checks), "claimed,", len(na), "not claimed")

if __name__ == "__main__":
    main()
