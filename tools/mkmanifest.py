#!/usr/bin/env python3
"""Regenerates /verif/MANIFEST.json from the table below (single source of truth)."""
import json, os, sys

ROOT = os.path.dirname(os.path.dirname(os.path.abspath(__file__)))

TECH = ("bounded symbolic execution of the real Go code (go/ssa interpreter with symbolic values, "
        "regenerated from /repo's working tree on every run) with an SMT solver (z3 5.1.0 via z3-new) deciding every "
        "branch and assertion; counterexamples replayed natively")

# property -> (claimed?, level text, level note, design ref) ; unclaimed -> reason
CLAIMED = {
    "C14": dict(
        text="For every width 1..64 (signed 2..64) and every bit position 0..15 (thorough: 0..135) the solver shows, over ALL "
             "buffer contents, that unsigned/signed extraction returns exactly the addressed bits, reads no byte past the "
             "field and is independent of every bit outside it; exhaustive in (width, position), symbolic in the data.",
        note="go/ssa translation + my interpreter (validated per run by replaying path models natively); z3 5.1.0; "
             "positions >= 136 are outside the bound (the function depends on the position only through i/8 and i%8).",
        ref="DESIGN.md section 6, C14"),
}

NOT_APPLICABLE = {
}

WIP = "check not built yet in this session (work in progress; see DESIGN.md section 10 for the build order)"

def main():
    props = [json.loads(l) for l in open(os.path.join(ROOT, "properties.jsonl"))]
    checks, na = [], []
    for p in props:
        pid = p["id"]
        if pid in CLAIMED:
            c = CLAIMED[pid]
            checks.append({
                "property_id": pid,
                "quick_cmd": f"./check {pid} quick",
                "thorough_cmd": f"./check {pid} thorough",
                "evidence_file": f"/verif/evidence/{pid}.json",
                "replay_cmd_template": "./bin/gosym replay {path}",
                "engine": "gosym",
                "level_claimed": {"category": "model_checking", "text": c["text"], "design_ref": c["ref"]},
                "level_note": c["note"],
                "technique": c.get("technique", TECH),
            })
        else:
            na.append({"property_id": pid, "reason": NOT_APPLICABLE.get(pid, WIP)})
    m = {
        "version": 1,
        "setup_cmd": "cd /verif/engine && GOFLAGS=-mod=mod GOPROXY=off GOSUMDB=off GOTOOLCHAIN=local go build -o /verif/bin/gosym .",
        "hooks": {
            "guard": "verifharness",
            "enable": "harness files under /verif/harness are injected into the packages they test with go/packages "
                      "Overlay (engine) and `go test -overlay ... -tags verifharness` (native replay); nothing is written to /repo",
            "baseline_off_cmd": "cd /repo && go test -vet=off -count=1 ./...",
            "source_commits": [],
            "add_only": True,
        },
        "engines": [{
            "name": "gosym",
            "path": "/verif/engine",
            "serves_properties": [c["property_id"] for c in checks],
            "kind_free_text": "own SSA-level symbolic executor for Go (x/tools go/ssa v0.29.0) emitting SMT-LIB2 to a live solver process; "
                              "path exploration by re-execution, exact GF(2)-linear CRC-24Q model, abstract time, structured strings, cooperative goroutine scheduler",
        }],
        "checks": checks,
        "not_applicable": na,
        "notes": "All checks: ./check <id> quick|thorough (wrapper builds the engine if needed, then runs bin/gosym). "
                 "Exit 0 = held on everything explored; exit 1 + VIOLATION line = replayed counterexample; exit 2 = the check itself is broken.",
    }
    json.dump(m, open(os.path.join(ROOT, "MANIFEST.json"), "w"), indent=1)
    print("MANIFEST.json:", len(checks), "claimed,", len(na), "not claimed")

if __name__ == "__main__":
    main()
